//! Stateless, deviation-bounded, exhaustive search by prefix replay, with explicit-state pruning.
#![allow(dead_code)]

use crate::cfg::Cfg;
use crate::chooser::Point;
use crate::oracle::Violation;
use crate::world::{run_once, RunResult};
use std::collections::{BTreeMap, HashMap, HashSet};
use std::rc::Rc;
use std::sync::atomic::{AtomicBool, AtomicU64, AtomicUsize, Ordering};
use std::sync::{Arc, Condvar, Mutex};
use std::time::{Duration, Instant};

pub struct Item {
    pub prefix: Vec<u8>,
    pub expect: Vec<(u8, u8)>,
}

const SHARDS: usize = 256;
/// Resident-set cap of one check (the sandbox has 62 GB and no swap).
const RSS_CAP: u64 = 20 << 30;

pub fn rss_bytes() -> u64 {
    std::fs::read_to_string("/proc/self/statm")
        .ok()
        .and_then(|s| s.split_whitespace().nth(1).and_then(|p| p.parse::<u64>().ok()))
        .map(|pages| pages * 4096)
        .unwrap_or(0)
}

pub struct Visited {
    shards: Vec<Mutex<HashMap<u128, u8>>>,
}

impl Visited {
    pub fn new() -> Self {
        Visited {
            shards: (0..SHARDS).map(|_| Mutex::new(HashMap::new())).collect(),
        }
    }
    /// true = already explored with at least this budget
    pub fn visit(&self, key: u128, budget: u32) -> bool {
        let s = (key as usize ^ (key >> 64) as usize) % SHARDS;
        let mut m = self.shards[s].lock().unwrap();
        let b = budget.min(255) as u8;
        match m.get_mut(&key) {
            Some(old) if *old >= b => true,
            Some(old) => {
                *old = b;
                false
            }
            None => {
                m.insert(key, b);
                false
            }
        }
    }
    pub fn len(&self) -> usize {
        self.shards.iter().map(|s| s.lock().unwrap().len()).sum()
    }
}

#[derive(Clone, Debug)]
pub struct Found {
    pub violation: Violation,
    pub choices: Vec<u8>,
    pub count: u64,
}

#[derive(Default, Debug)]
pub struct Stats {
    pub executions: u64,
    pub merged: u64,
    pub states: u64,
    pub transitions: u64,
    pub max_points: usize,
    pub max_spent: u32,
    pub outcomes: usize,
    pub env_steps: u64,
    pub found: BTreeMap<String, Found>,
    pub capped: Option<String>,
    pub machinery: Option<String>,
    pub wall_s: f64,
    pub samples: Vec<Vec<String>>,
    /// situations reached by at least one execution (bits of `oracle::SITUATIONS`)
    pub cover: u64,
}

pub struct Caps {
    pub wall: Duration,
    pub max_exec: u64,
    pub threads: usize,
}

impl Default for Caps {
    fn default() -> Self {
        Caps {
            wall: Duration::from_secs(3600),
            max_exec: u64::MAX,
            threads: std::thread::available_parallelism().map(|n| n.get()).unwrap_or(4),
        }
    }
}

struct SharedSearch {
    queue: Mutex<Vec<Item>>,
    cv: Condvar,
    active: AtomicUsize,
    qlen: AtomicUsize,
    stop: AtomicBool,
    executions: AtomicU64,
    merged: AtomicU64,
    transitions: AtomicU64,
    env_steps: AtomicU64,
    results: Mutex<Agg>,
    cover: AtomicU64,
}

#[derive(Default)]
struct Agg {
    found: BTreeMap<String, Found>,
    outcomes: HashSet<u64>,
    max_points: usize,
    max_spent: u32,
    machinery: Option<String>,
}

pub fn children(r: &RunResult, prefix_len: usize, budget: u32) -> Vec<Item> {
    let mut out = Vec::new();
    let pts: &Vec<Point> = &r.points;
    if pts.len() < prefix_len {
        return out;
    }
    // cost already spent within the prefix
    let mut spent = 0u32;
    for p in &pts[..prefix_len] {
        if (p.cost_mask >> p.chosen) & 1 == 1 {
            spent += 1;
        }
    }
    let choices: Vec<u8> = pts.iter().map(|p| p.chosen).collect();
    let expect: Vec<(u8, u8)> = pts.iter().map(|p| (p.kind, p.arity)).collect();
    // deepest first so that a LIFO stack explores shallow deviations first
    for i in (prefix_len..pts.len()).rev() {
        let p = pts[i];
        for alt in (1..p.arity).rev() {
            let cost = ((p.cost_mask >> alt) & 1) as u32;
            if spent + cost > budget {
                continue;
            }
            let mut prefix = choices[..i].to_vec();
            prefix.push(alt);
            out.push(Item {
                prefix,
                expect: expect[..=i].to_vec(),
            });
        }
    }
    out
}

pub fn explore(cfg: &Cfg, caps: &Caps) -> Stats {
    let start = Instant::now();
    let visited = Arc::new(Visited::new());
    let shared = Arc::new(SharedSearch {
        queue: Mutex::new(vec![Item {
            prefix: vec![],
            expect: vec![],
        }]),
        cv: Condvar::new(),
        active: AtomicUsize::new(0),
        qlen: AtomicUsize::new(1),
        stop: AtomicBool::new(false),
        executions: AtomicU64::new(0),
        merged: AtomicU64::new(0),
        transitions: AtomicU64::new(0),
        env_steps: AtomicU64::new(0),
        results: Mutex::new(Agg::default()),
        cover: AtomicU64::new(0),
    });
    let capped: Arc<Mutex<Option<String>>> = Arc::new(Mutex::new(None));
    let threads = caps.threads.max(1);
    let mut handles = Vec::new();
    for _ in 0..threads {
        let shared = shared.clone();
        let visited = visited.clone();
        let cfg = cfg.clone();
        let capped = capped.clone();
        let wall = caps.wall;
        let max_exec = caps.max_exec;
        handles.push(
            std::thread::Builder::new()
                .stack_size(64 << 20)
                .spawn(move || {
                    let cfg = Rc::new(cfg);
                    let mut local: Vec<Item> = Vec::new();
                    let mut local_outcomes: HashSet<u64> = HashSet::new();
                    loop {
                        if shared.stop.load(Ordering::Relaxed) {
                            break;
                        }
                        let item = match local.pop() {
                            Some(it) => it,
                            None => {
                                let mut q = shared.queue.lock().unwrap();
                                loop {
                                    if let Some(it) = q.pop() {
                                        shared.active.fetch_add(1, Ordering::SeqCst);
                                        // take a batch
                                        let take = (q.len() / 2).min(64);
                                        for _ in 0..take {
                                            local.push(q.pop().unwrap());
                                        }
                                        shared.qlen.store(q.len(), Ordering::Relaxed);
                                        break it;
                                    }
                                    if shared.active.load(Ordering::SeqCst) == 0 || shared.stop.load(Ordering::Relaxed) {
                                        shared.cv.notify_all();
                                        drop(q);
                                        // finished
                                        let mut agg = shared.results.lock().unwrap();
                                        agg.outcomes.extend(local_outcomes.drain());
                                        return;
                                    }
                                    q = shared.cv.wait_timeout(q, Duration::from_millis(20)).unwrap().0;
                                }
                            }
                        };
                        // run
                        let vis = |k: u128, b: u32| visited.visit(k, b);
                        let r = run_once(&cfg, &item.prefix, &item.expect, Some(&vis), false);
                        let n = shared.executions.fetch_add(1, Ordering::Relaxed) + 1;
                        shared.transitions.fetch_add(r.points.len().saturating_sub(item.prefix.len().saturating_sub(1)) as u64, Ordering::Relaxed);
                        shared.env_steps.fetch_add(r.io_calls as u64, Ordering::Relaxed);
                        if r.pruned {
                            shared.merged.fetch_add(1, Ordering::Relaxed);
                        }
                        local_outcomes.insert(r.outcome_sig);
                        if r.cover != 0 {
                            shared.cover.fetch_or(r.cover, Ordering::Relaxed);
                        }
                        if r.diverged.is_some() || !r.violations.is_empty() || r.points.len() > 0 {
                            let mut agg = shared.results.lock().unwrap();
                            agg.max_points = agg.max_points.max(r.points.len());
                            agg.max_spent = agg.max_spent.max(r.spent);
                            if let Some(d) = &r.diverged {
                                if agg.machinery.is_none() {
                                    agg.machinery = Some(format!("{} (prefix {:?})", d, item.prefix));
                                }
                                shared.stop.store(true, Ordering::Relaxed);
                            }
                            for v in &r.violations {
                                let choices: Vec<u8> = r.points.iter().map(|p| p.chosen).collect();
                                let e = agg.found.entry(v.sig.clone()).or_insert_with(|| Found {
                                    violation: v.clone(),
                                    choices: choices.clone(),
                                    count: 0,
                                });
                                e.count += 1;
                                // keep the replay with the fewest deviations, then the shortest
                                if choices.len() < e.choices.len() {
                                    e.choices = choices;
                                    e.violation = v.clone();
                                }
                            }
                        }
                        let kids = children(&r, item.prefix.len(), cfg.dev);
                        local.extend(kids);
                        if local.len() > 4 && (local.len() > 4096 || shared.qlen.load(Ordering::Relaxed) < threads * 4) {
                            let mut q = shared.queue.lock().unwrap();
                            let give = local.len() / 2;
                            // donate the oldest (shallowest) items
                            q.extend(local.drain(..give));
                            shared.qlen.store(q.len(), Ordering::Relaxed);
                            shared.cv.notify_all();
                        }
                        if local.is_empty() {
                            shared.active.fetch_sub(1, Ordering::SeqCst);
                            shared.cv.notify_all();
                        }
                        if n % 256 == 0 && (start.elapsed() > wall || n >= max_exec) {
                            let mut c = capped.lock().unwrap();
                            if c.is_none() {
                                *c = Some(if n >= max_exec {
                                    format!("execution cap {} reached", max_exec)
                                } else {
                                    format!("wall-clock cap {:?} reached", wall)
                                });
                            }
                            shared.stop.store(true, Ordering::Relaxed);
                        }
                        if n % 8192 == 0 {
                            let rss = rss_bytes();
                            if rss > RSS_CAP {
                                let mut c = capped.lock().unwrap();
                                if c.is_none() {
                                    *c = Some(format!("memory cap reached ({} MiB resident)", rss >> 20));
                                }
                                shared.stop.store(true, Ordering::Relaxed);
                            }
                        }
                    }
                    if !local.is_empty() {
                        shared.active.fetch_sub(1, Ordering::SeqCst);
                    }
                    let mut agg = shared.results.lock().unwrap();
                    agg.outcomes.extend(local_outcomes.drain());
                })
                .expect("spawn"),
        );
    }
    for h in handles {
        let _ = h.join();
    }
    let agg = std::mem::take(&mut *shared.results.lock().unwrap());
    Stats {
        executions: shared.executions.load(Ordering::Relaxed),
        merged: shared.merged.load(Ordering::Relaxed),
        states: visited.len() as u64,
        transitions: shared.transitions.load(Ordering::Relaxed),
        max_points: agg.max_points,
        max_spent: agg.max_spent,
        outcomes: agg.outcomes.len(),
        env_steps: shared.env_steps.load(Ordering::Relaxed),
        found: agg.found,
        capped: capped.lock().unwrap().clone(),
        machinery: agg.machinery,
        wall_s: start.elapsed().as_secs_f64(),
        samples: Vec::new(),
        cover: shared.cover.load(Ordering::Relaxed),
    }
}

/// Re-run one choice vector with trace recording, twice, and require identical traces.
pub fn replay(cfg: &Cfg, choices: &[u8]) -> Result<RunResult, String> {
    let cfg = Rc::new(cfg.clone());
    let a = run_once(&cfg, choices, &[], None, true);
    let b = run_once(&cfg, choices, &[], None, true);
    if a.trace != b.trace {
        return Err("replay is not deterministic: the two traces differ".to_string());
    }
    if let Some(d) = &a.diverged {
        return Err(format!("replay diverged: {}", d));
    }
    Ok(a)
}
