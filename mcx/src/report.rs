//! Running a check: explore every family, judge against the known-findings file, write replays
//! and the evidence file, decide the exit code.
#![allow(dead_code)]

use crate::cfg::Cfg;
use crate::explore::{self, Caps, Stats};
use crate::families::{self, Tier};
use crate::mqtt_ref;
use serde_json::{json, Value};
use std::collections::BTreeMap;
use std::path::PathBuf;
use std::time::Instant;

pub fn root() -> PathBuf {
    PathBuf::from(std::env::var("VERIF_ROOT").unwrap_or_else(|_| "/verif".to_string()))
}

pub fn seed() -> i64 {
    std::env::var("VERIF_SEED").ok().and_then(|s| s.parse().ok()).unwrap_or(0)
}

#[derive(Clone, Debug)]
pub struct Known {
    pub property: String,
    pub signature: String,
    pub status: String,
    pub what: String,
}

pub fn load_known() -> Vec<Known> {
    let p = root().join("known_findings.json");
    let Ok(text) = std::fs::read_to_string(&p) else {
        return vec![];
    };
    let v: Value = match serde_json::from_str(&text) {
        Ok(v) => v,
        Err(e) => {
            eprintln!("machinery: cannot parse {}: {}", p.display(), e);
            std::process::exit(2);
        }
    };
    let mut out = Vec::new();
    if let Some(arr) = v.get("findings").and_then(|f| f.as_array()) {
        for f in arr {
            out.push(Known {
                property: f["property"].as_str().unwrap_or("").to_string(),
                signature: f["signature"].as_str().unwrap_or("").to_string(),
                status: f["status"].as_str().unwrap_or("").to_string(),
                what: f["what"].as_str().unwrap_or("").to_string(),
            });
        }
    }
    out
}

/// `*` matches any (possibly empty) run of characters; everything else is literal.
pub fn glob(pattern: &str, text: &str) -> bool {
    let parts: Vec<&str> = pattern.split('*').collect();
    if parts.len() == 1 {
        return pattern == text;
    }
    let mut rest = text;
    for (i, part) in parts.iter().enumerate() {
        if i == 0 {
            if !rest.starts_with(part) {
                return false;
            }
            rest = &rest[part.len()..];
        } else if i == parts.len() - 1 {
            return rest.len() >= part.len() && rest.ends_with(part);
        } else {
            match rest.find(part) {
                Some(p) => rest = &rest[p + part.len()..],
                None => return false,
            }
        }
    }
    true
}

pub fn sig_file(sig: &str) -> String {
    sig.chars()
        .map(|c| if c.is_ascii_alphanumeric() || c == '-' || c == '_' { c } else { '_' })
        .collect()
}

/// One unit of work of a check: either a schedule exploration or a direct enumeration.
pub struct FamilyReport {
    pub name: String,
    pub bounds: Value,
    pub executions: u64,
    pub states: u64,
    pub transitions: u64,
    pub merged: u64,
    pub outcomes: u64,
    pub exhaustive: bool,
    pub capped: Option<String>,
    pub samples: Vec<Value>,
    pub found: BTreeMap<String, FoundOut>,
    pub wall_s: f64,
    /// situations (oracle::SITUATIONS) reached by at least one execution
    pub reached: Vec<String>,
    /// situations the family exists for that no execution reached
    pub not_reached: Vec<String>,
}

#[derive(Clone, Debug)]
pub struct FoundOut {
    pub prop: String,
    pub sig: String,
    pub detail: String,
    pub count: u64,
    pub replay: Value,
}

pub fn bounds_of(c: &Cfg) -> Value {
    json!({
        "max_api_calls": c.max_ops, "max_connections": c.max_conns, "max_requests": c.max_reqs,
        "deviation_budget": c.dev, "rx": c.rx, "tx": c.tx, "keepalive_s": c.keepalive,
        "alphabet": c.ops.iter().map(|o| o.name()).collect::<Vec<_>>(),
        "io_menu": format!("{:?}", c.io), "cancellation": c.cancel,
        "broker": {
            "receive_max": format!("{:?}", c.broker.receive_max), "max_packet": format!("{:?}", c.broker.max_packet),
            "may_lose_session": c.broker.may_lose_session, "ack_fail": c.broker.ack_fail,
            "bad_handshake": c.broker.bad_handshake, "server_disconnect": c.broker.disconnect,
            "stale_acks": c.broker.stale_acks, "script_len": c.broker.script.len(), "reorder_window": c.broker.reorder_window,
        },
        "benign_continuation": c.drain, "state_pruning": c.prune, "dead_byte_poisoning": c.poison,
    })
}

pub fn explore_family(prop: &str, tier: Tier, cfg: &Cfg, caps: &Caps) -> Result<FamilyReport, String> {
    let st: Stats = explore::explore(cfg, caps);
    if let Some(m) = &st.machinery {
        return Err(format!("family {}: {}", cfg.family, m));
    }
    // determinism proof + samples: replay the default execution and one execution per finding, twice
    let mut samples = Vec::new();
    let base = explore::replay(cfg, &[]).map_err(|e| format!("family {}: {}", cfg.family, e))?;
    samples.push(json!({"family": cfg.family, "choices": [], "trace": base.trace.clone().unwrap_or_default()}));
    let mut found = BTreeMap::new();
    for (sig, f) in &st.found {
        let r = explore::replay(cfg, &f.choices).map_err(|e| format!("family {} sig {}: {}", cfg.family, sig, e))?;
        if !r.violations.iter().any(|v| &v.sig == sig) {
            return Err(format!(
                "family {}: replay of {} does not reproduce the violation (choices {:?})",
                cfg.family, sig, f.choices
            ));
        }
        let replay = json!({
            "property": f.violation.prop, "signature": sig, "check": prop,
            "tier": if tier == Tier::Quick { "quick" } else { "thorough" },
            "family": cfg.family, "choices": f.choices, "detail": f.violation.detail,
            "occurrences_in_search": f.count,
            "trace": r.trace.clone().unwrap_or_default(),
        });
        found.insert(
            sig.clone(),
            FoundOut {
                prop: f.violation.prop.to_string(),
                sig: sig.clone(),
                detail: f.violation.detail.clone(),
                count: f.count,
                replay,
            },
        );
    }
    Ok(FamilyReport {
        name: cfg.family.to_string(),
        bounds: bounds_of(cfg),
        executions: st.executions,
        states: st.states,
        transitions: st.transitions,
        merged: st.merged,
        outcomes: st.outcomes as u64,
        exhaustive: st.capped.is_none(),
        capped: st.capped.clone(),
        samples,
        found,
        wall_s: st.wall_s,
        reached: crate::oracle::SITUATIONS
            .iter()
            .enumerate()
            .filter(|(i, _)| st.cover & (1u64 << i) != 0)
            .map(|(_, s)| s.to_string())
            .collect(),
        not_reached: cfg
            .must_reach
            .iter()
            .filter(|s| st.cover & crate::oracle::situation_bit(s) == 0)
            .map(|s| s.to_string())
            .collect(),
    })
}

pub fn run_check(prop: &str, tier: Tier, caps: Caps) -> i32 {
    let t0 = Instant::now();
    let n_self = match mqtt_ref::self_test() {
        Ok(n) => n,
        Err(e) => {
            eprintln!("machinery: reference codec self test failed: {}", e);
            return 2;
        }
    };
    let mut reports: Vec<FamilyReport> = Vec::new();
    // development aid (never set by the registered commands): explore only the families whose name contains this
    let only = std::env::var("MCX_ONLY_FAMILY").ok();
    for cfg in families::families(prop, tier) {
        if only.as_ref().is_some_and(|o| !cfg.family.contains(o.as_str())) {
            continue;
        }
        match explore_family(prop, tier, &cfg, &caps) {
            Ok(r) => {
                println!(
                    "family {:<44} executions={} states={} transitions={} merged={} outcomes={} findings={} {} {:.1}s",
                    r.name,
                    r.executions,
                    r.states,
                    r.transitions,
                    r.merged,
                    r.outcomes,
                    r.found.len(),
                    r.capped.clone().map(|c| format!("CAPPED({})", c)).unwrap_or_else(|| "complete".into()),
                    r.wall_s
                );
                for s in &r.not_reached {
                    println!("  note: family {} did not reach: {}", r.name, s);
                }
                reports.push(r);
            }
            Err(e) => {
                eprintln!("machinery: {}", e);
                return 2;
            }
        }
    }
    match crate::families::direct(prop, tier, &caps) {
        Ok(mut v) => {
            for r in &v {
                println!(
                    "direct {:<44} cases={} distinct={} findings={} {:.1}s",
                    r.name,
                    r.executions,
                    r.outcomes,
                    r.found.len(),
                    r.wall_s
                );
            }
            reports.append(&mut v)
        }
        Err(e) => {
            eprintln!("machinery: {}", e);
            return 2;
        }
    }
    if reports.is_empty() {
        eprintln!("machinery: no family defined for {}", prop);
        return 2;
    }
    finish(prop, tier, reports, n_self, t0)
}

pub fn finish(prop: &str, tier: Tier, reports: Vec<FamilyReport>, n_self: usize, t0: Instant) -> i32 {
    let known = load_known();
    let replay_dir = root().join("replays");
    let _ = std::fs::create_dir_all(&replay_dir);
    let mut exit = 0;
    let mut n_viol = 0;
    let mut known_hit: Vec<String> = Vec::new();
    let mut lines: Vec<String> = Vec::new();
    let mut all_found: BTreeMap<String, &FoundOut> = BTreeMap::new();
    for r in &reports {
        for (sig, f) in &r.found {
            all_found.entry(sig.clone()).or_insert(f);
        }
    }
    for (sig, f) in &all_found {
        if sig.contains(":MACHINERY:") {
            eprintln!("machinery: {}: {}", sig, f.detail);
            return 2;
        }
    }
    for (sig, f) in &all_found {
        if f.prop != prop {
            continue;
        }
        let path = replay_dir.join(format!("{}.json", sig_file(sig)));
        let listed = known
            .iter()
            .find(|k| k.property == prop && glob(&k.signature, sig) && k.status == "known");
        match listed {
            Some(k) => {
                lines.push(format!("KNOWN-FINDING: property={} {} [{}] ({} executions)", prop, k.what, sig, f.count));
                known_hit.push(sig.clone());
            }
            None => {
                if let Err(e) = std::fs::write(&path, serde_json::to_string_pretty(&f.replay).unwrap()) {
                    eprintln!("machinery: cannot write {}: {}", path.display(), e);
                    return 2;
                }
                lines.push(format!("VIOLATION property={} replay={}", prop, path.display()));
                lines.push(format!("  signature {} ({} executions): {}", sig, f.count, f.detail));
                n_viol += 1;
                exit = 1;
            }
        }
    }
    for l in &lines {
        println!("{}", l);
    }
    // evidence
    let executions: u64 = reports.iter().map(|r| r.executions).sum();
    let states: u64 = reports.iter().map(|r| r.states).sum();
    let transitions: u64 = reports.iter().map(|r| r.transitions).sum();
    let outcomes: u64 = reports.iter().map(|r| r.outcomes).sum();
    let exhaustive = reports.iter().all(|r| r.exhaustive);
    let mut samples: Vec<Value> = Vec::new();
    for r in &reports {
        for s in r.samples.iter().take(2) {
            samples.push(s.clone());
        }
    }
    let fams: Vec<Value> = reports
        .iter()
        .map(|r| {
            json!({
                "family": r.name, "bounds": r.bounds, "executions": r.executions, "states": r.states,
                "transitions": r.transitions, "merged_into_explored_states": r.merged,
                "distinct_outcome_classes": r.outcomes, "exhaustive_within_bounds": r.exhaustive,
                "cap_hit": r.capped, "wall_s": r.wall_s,
                "finding_signatures": r.found.keys().collect::<Vec<_>>(),
                "situations_reached": r.reached,
                "intended_situations_not_reached": r.not_reached,
            })
        })
        .collect();
    let ev = json!({
        "property_id": prop,
        "tier": if tier == Tier::Quick { "quick" } else { "thorough" },
        "seed": seed(),
        "level": "model_checking",
        "coverage": {
            "states": states,
            "transitions": transitions,
            "traces_validated_against_impl": executions,
            "samples": samples,
            "evaluations": executions,
            "distinct_nontrivial": outcomes,
            "rule": "every evaluation is a run of the real minimq Session/Connection under the controlled environment (virtual transport, virtual clock, broker model). Schedule families: executions are enumerated exhaustively by prefix replay within the listed bounds (all programs over the alphabet, all transport answers, cancellation points, broker orders, timer events whose total deviation cost is within the budget); states = distinct 128-bit keys over the real session fingerprint + broker model + monitor state at operation boundaries. Closure families: breadth-first over event histories until no new state key appears (fixpoint_reached in the family bounds); states = distinct keys, transitions = history+event runs. Sweep families: every case of the listed finite input space is executed; states = distinct outcome classes. distinct_nontrivial counts distinct outcome classes (sequence of API results / class of observed behaviour); a run in which nothing collided would show as a single class.",
            "exhaustive": exhaustive,
            "families": fams,
            "reference_codec_self_test_cases": n_self,
            "known_findings_reproduced": known_hit,
        },
        "assumptions": [
            "transport contract: write never returns Ok(0) for a non-empty buffer (except where a family says otherwise); transport futures are themselves cancel-safe",
            "broker model emits only packets a conformant MQTT 5 broker may send, except in costed fault options",
            "mqtt_ref (independent codec written from the OASIS specification) is trusted; its self test runs first",
            "bounded: statements hold for the alphabets, lengths and deviation budgets listed per family",
            "VERIF_SEED is recorded but unused: nothing is sampled"
        ],
        "wall_s": t0.elapsed().as_secs_f64(),
        "violations": n_viol,
    });
    let evdir = root().join("evidence");
    let _ = std::fs::create_dir_all(&evdir);
    let evpath = evdir.join(format!("{}.json", prop));
    if let Err(e) = std::fs::write(&evpath, serde_json::to_string_pretty(&ev).unwrap()) {
        eprintln!("machinery: cannot write {}: {}", evpath.display(), e);
        return 2;
    }
    println!(
        "{} {}: {} executions, {} states, {} transitions, exhaustive_within_bounds={}, violations={}, known findings={}, {:.1}s",
        prop,
        if tier == Tier::Quick { "quick" } else { "thorough" },
        executions,
        states,
        transitions,
        exhaustive,
        n_viol,
        known_hit.len(),
        t0.elapsed().as_secs_f64()
    );
    exit
}

pub fn run_replay(path: &str) -> i32 {
    let text = match std::fs::read_to_string(path) {
        Ok(t) => t,
        Err(e) => {
            eprintln!("cannot read {}: {}", path, e);
            return 2;
        }
    };
    let v: Value = match serde_json::from_str(&text) {
        Ok(v) => v,
        Err(e) => {
            eprintln!("cannot parse {}: {}", path, e);
            return 2;
        }
    };
    let check = v["check"].as_str().unwrap_or("");
    let tier = if v["tier"].as_str() == Some("thorough") {
        Tier::Thorough
    } else {
        Tier::Quick
    };
    let family = v["family"].as_str().unwrap_or("");
    let sig = v["signature"].as_str().unwrap_or("");
    if v.get("direct").is_some() {
        return crate::families::replay_direct(&v);
    }
    if let Some(name) = v.get("closure").and_then(|n| n.as_str()) {
        let hist: Vec<u8> = v["history"].as_array().map(|a| a.iter().map(|x| x.as_u64().unwrap_or(0) as u8).collect()).unwrap_or_default();
        let r = if name.starts_with("C17") { crate::d_c17::replay(name, &hist) } else { crate::d_c10::replay(name, &hist) };
        let Some((out, trace)) = r else {
            eprintln!("unknown closure model {}", name);
            return 2;
        };
        for l in trace {
            println!("{}", l);
        }
        return if out.viol.iter().any(|(s, _)| s == sig) {
            println!("REPRODUCED {}", sig);
            1
        } else {
            println!("not reproduced: {} (violations seen: {:?})", sig, out.viol.iter().map(|x| x.0.clone()).collect::<Vec<_>>());
            0
        };
    }
    let choices: Vec<u8> = v["choices"]
        .as_array()
        .map(|a| a.iter().map(|x| x.as_u64().unwrap_or(0) as u8).collect())
        .unwrap_or_default();
    let Some(cfg) = families::families(check, tier).into_iter().find(|c| c.family == family) else {
        eprintln!("unknown family {} for {}", family, check);
        return 2;
    };
    match explore::replay(&cfg, &choices) {
        Err(e) => {
            eprintln!("machinery: {}", e);
            2
        }
        Ok(r) => {
            for l in r.trace.clone().unwrap_or_default() {
                println!("{}", l);
            }
            println!(
                "choice points: {}",
                r.points.iter().map(|p| format!("{}:{}/{}", crate::chooser::kind_name(p.kind), p.chosen, p.arity)).collect::<Vec<_>>().join(" ")
            );
            let hit = r.violations.iter().find(|x| x.sig == sig);
            match hit {
                Some(x) => {
                    println!("REPRODUCED {}: {}", x.sig, x.detail);
                    1
                }
                None => {
                    println!(
                        "not reproduced: {} (violations seen: {:?})",
                        sig,
                        r.violations.iter().map(|x| x.sig.clone()).collect::<Vec<_>>()
                    );
                    0
                }
            }
        }
    }
}
