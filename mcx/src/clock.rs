//! Virtual time: an `embassy_time_driver::Driver` whose clock is a thread-local counter that only
//! the explorer moves. `schedule_wake` merely records the requested instant.
use std::cell::Cell;

pub const TICKS_PER_MS: u64 = embassy_time::TICK_HZ / 1000;

thread_local! {
    static NOW: Cell<u64> = const { Cell::new(0) };
    static WAKE: Cell<Option<u64>> = const { Cell::new(None) };
    static NOW_READS: Cell<u64> = const { Cell::new(0) };
}

struct VirtualDriver;

impl embassy_time_driver::Driver for VirtualDriver {
    fn now(&self) -> u64 {
        // a loop that reads the clock twenty million times without one transport call in between does not end
        let n = NOW_READS.with(|c| {
            c.set(c.get() + 1);
            c.get()
        });
        if n > SPIN_LIMIT {
            NOW_READS.with(|c| c.set(0));
            std::panic::resume_unwind(Box::new(crate::world::Watchdog("clock read")));
        }
        NOW.with(|c| c.get())
    }

    fn schedule_wake(&self, at: u64, _waker: &core::task::Waker) {
        WAKE.with(|c| {
            let v = match c.get() {
                Some(prev) => prev.min(at),
                None => at,
            };
            c.set(Some(v));
        });
    }
}

embassy_time_driver::time_driver_impl!(static DRIVER: VirtualDriver = VirtualDriver);

pub fn reset() {
    // Start well away from zero so that "relative to now" never underflows.
    NOW.with(|c| c.set(1_000_000 * TICKS_PER_MS));
    WAKE.with(|c| c.set(None));
}

pub const SPIN_LIMIT: u64 = 20_000_000;

/// A transport call or a new API call: the count of clock reads starts again.
pub fn spin_reset() {
    NOW_READS.with(|c| c.set(0));
}

pub fn now() -> u64 {
    NOW.with(|c| c.get())
}

pub fn now_ms() -> u64 {
    now() / TICKS_PER_MS
}

pub fn set(t: u64) {
    NOW.with(|c| {
        assert!(t >= c.get(), "virtual clock must be monotonic");
        c.set(t)
    });
}

pub fn advance_ms(ms: u64) {
    set(now() + ms * TICKS_PER_MS);
}

/// Earliest wake requested since the last `clear_wake`.
pub fn wake() -> Option<u64> {
    WAKE.with(|c| c.get())
}

pub fn clear_wake() {
    WAKE.with(|c| c.set(None));
}
