//! Scripted scenarios on the real client (direct enumerations): the same virtual transport and
//! clock as the explorer, but with a benign, non-branching environment.
#![allow(dead_code)]

use crate::broker::Broker;
use crate::cfg::{BrokerCfg, Cfg};
use crate::chooser::Chooser;
use crate::clock;
use crate::mqtt_ref::{self as mr, CPacket};
use crate::oracle::Oracle;
use crate::world::{drive_fut, ConnIo, Pend, Shared, VirtualIo};
use std::cell::RefCell;
use std::future::Future;
use std::rc::Rc;

pub struct Bench {
    pub sh: Rc<RefCell<Shared>>,
}

impl Bench {
    /// `manual` = the broker model never speaks; the scenario supplies inbound bytes.
    pub fn new(manual: bool, broker: BrokerCfg, rx: usize) -> Bench {
        clock::reset();
        let mut cfg = Cfg::base("bench");
        cfg.rx = rx;
        cfg.broker = broker.clone();
        cfg.watchdog_calls = 200_000;
        let mut ch = Chooser::new(vec![], vec![]);
        ch.frozen = true;
        let sh = Rc::new(RefCell::new(Shared {
            ch,
            cfg: Rc::new(cfg),
            draining: true,
            conns: Vec::new(),
            broker: Broker::new(broker, true),
            oracle: Oracle::new(vec![], "mcx", rx),
            trace: None,
            op_calls: 0,
            pending: Pend::None,
            just_resumed: false,
            cancel_ok: true,
            budget: 0,
            progress: 0,
            env_steps: 0,
            manual,
            stall_next_write: false,
            stall_next_flush: false,
            op_writes: 0,
            zero_latched: false,
            last_write_partial: false,
            pend_write_info: None,
            pend_at_write: None,
            force_cancel: false,
            keep_tx: true,
            last_cancel_forced: false,
            held: Vec::new(),
        }));
        Bench { sh }
    }

    pub fn io(&self) -> (VirtualIo, usize) {
        let mut sh = self.sh.borrow_mut();
        sh.conns.push(ConnIo::default());
        let id = sh.oracle.conn_open();
        sh.broker.conn_open();
        (
            VirtualIo {
                sh: self.sh.clone(),
                id,
            },
            id,
        )
    }

    /// Run a future; `None` when it blocks with nothing left that could happen.
    pub fn run<F: Future>(&self, fut: F, conn: usize) -> Option<F::Output> {
        self.sh.borrow_mut().op_calls = 0;
        drive_fut(&self.sh, fut, Some(conn), true)
    }

    /// Run a future whose next transport write never completes: the application drops it at that point (`None`).
    /// `Some` if it finished without writing.
    pub fn run_dropped_at_next_write<F: Future>(&self, fut: F) -> Option<F::Output> {
        use std::task::{Context, Poll, RawWaker, RawWakerVTable, Waker};
        fn clone(_: *const ()) -> RawWaker {
            RawWaker::new(std::ptr::null(), &VTABLE)
        }
        fn noop(_: *const ()) {}
        static VTABLE: RawWakerVTable = RawWakerVTable::new(clone, noop, noop, noop);
        let waker = unsafe { Waker::from_raw(RawWaker::new(std::ptr::null(), &VTABLE)) };
        let mut cx = Context::from_waker(&waker);
        let mut fut = std::pin::pin!(fut);
        self.sh.borrow_mut().op_calls = 0;
        self.sh.borrow_mut().pending = Pend::None;
        self.sh.borrow_mut().stall_next_write = true;
        let r = match fut.as_mut().poll(&mut cx) {
            Poll::Ready(v) => Some(v),
            Poll::Pending => None,
        };
        self.sh.borrow_mut().stall_next_write = false;
        r
    }

    pub fn push(&self, conn: usize, bytes: &[u8]) {
        self.sh.borrow_mut().conns[conn].inbound.extend(bytes.iter().copied());
    }

    pub fn set_eof(&self, conn: usize) {
        self.sh.borrow_mut().conns[conn].eof_pending = true;
    }

    pub fn inbound_left(&self, conn: usize) -> usize {
        self.sh.borrow().conns[conn].inbound.len()
    }

    pub fn written(&self, conn: usize) -> Vec<u8> {
        self.sh.borrow().conns[conn].tx_log.clone()
    }

    pub fn io_counts(&self, conn: usize) -> (u32, u32, u32) {
        let sh = self.sh.borrow();
        (sh.conns[conn].reads, sh.conns[conn].writes, sh.conns[conn].flushes)
    }

    /// Decode everything written on `conn` with the strict reference decoder.
    pub fn packets(&self, conn: usize) -> Result<Vec<(CPacket, Vec<u8>)>, String> {
        let w = self.written(conn);
        let mut out = Vec::new();
        let mut i = 0;
        while i < w.len() {
            match mr::decode_client(&w[i..]) {
                Ok((p, n)) => {
                    out.push((p, w[i..i + n].to_vec()));
                    i += n;
                }
                Err(e) => return Err(format!("{:?} at offset {} of {}", e, i, mr::hex(&w))),
            }
        }
        Ok(out)
    }
}
