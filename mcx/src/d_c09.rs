//! C09: what an independent decoder reads from the wire is exactly what the application asked for.
use crate::direct::{guarded, hash_of, sweep, CaseOut};
use crate::direct2::*;
use crate::explore::Caps;
use crate::families::Tier;
use crate::mqtt_ref::{self as mr, AckKind, CPacket, PVal, Prop};
use crate::report::FamilyReport;
use crate::world::Res;
use minimq::{Disconnect, Publication, ReasonCode, RetainHandling, SubscriptionOptions, TopicFilter};
use serde::{Deserialize, Serialize};
use serde_json::{json, Value};

fn p(id: u8, val: PVal) -> Prop {
    Prop { id, val }
}

/// `k` ASCII letters, then one 2- / 3- / 4-byte character (`ch` = 0 / 1 / 2), then "zz".
fn mb_string(ch: u8, k: usize) -> String {
    let mut s = "a".repeat(k);
    s.push(['\u{e9}', '\u{20ac}', '\u{1f600}'][ch as usize % 3]);
    s.push_str("zz");
    s
}

fn flag(viol: &mut Vec<(String, String)>, rule: &str, ctx: &str, detail: String) {
    viol.push((format!("C09:{}:{}", rule, ctx), detail));
}

// ---------------------------------------------------------------------------------------------
// CONNECT
// ---------------------------------------------------------------------------------------------

#[derive(Clone, Debug, Serialize, Deserialize)]
pub struct ConnectCase {
    pub rx: usize,
    pub tx: usize,
    pub id_len: usize,
    pub keepalive: u16,
    pub expiry: u32,
    pub auth: u8, // 0 none, 1 short, 2 empty password, 3 long
    pub will: u8, // 0 none, 1 plain, 2 with properties, 3 empty payload
    pub will_qos: u8,
    pub will_retain: bool,
    /// connect twice (second CONNECT must ask to resume)
    pub second: bool,
    /// client_id / keepalive_interval / session_expiry_interval are each called twice, first with a decoy value
    #[serde(default)]
    pub decoys: bool,
    /// the client identifier consists of two-byte characters (`id_len` still counts bytes; odd lengths get one ASCII letter)
    #[serde(default)]
    pub id_mb: bool,
}

fn connect_spec(c: &ConnectCase) -> Spec {
    let mut s = Spec::plain(c.rx, c.tx);
    s.id = if c.id_mb { format!("{}{}", "\u{e9}".repeat(c.id_len / 2), "c".repeat(c.id_len % 2)) } else { "c".repeat(c.id_len) };
    s.keepalive = c.keepalive;
    s.expiry = c.expiry;
    s.decoys = c.decoys;
    s.auth = match c.auth {
        0 => None,
        1 => Some(("user".into(), b"pw".to_vec())),
        2 => Some(("u".into(), vec![])),
        3 => Some(("n".repeat(40), vec![0xFF; 33])),
        // a password one byte longer than a binary field can be
        _ => Some(("u".into(), vec![0x5A; 65536])),
    };
    s.will = match c.will {
        0 => None,
        1 => Some(WillSpec { topic: "w/t".into(), data: b"bye".to_vec(), qos: c.will_qos, retain: c.will_retain, props: vec![] }),
        2 => Some(WillSpec {
            topic: "w".into(),
            data: vec![0, 1, 2, 255],
            qos: c.will_qos,
            retain: c.will_retain,
            props: vec![
                p(0x01, PVal::Byte(1)),
                p(0x02, PVal::U32(77)),
                p(0x03, PVal::Str(b"ct".to_vec())),
                p(0x08, PVal::Str(b"r/t".to_vec())),
                p(0x09, PVal::Bin(vec![9, 8])),
                p(0x26, PVal::Pair(b"k".to_vec(), b"v".to_vec())),
            ],
        }),
        3 => Some(WillSpec { topic: "w".into(), data: vec![], qos: c.will_qos, retain: c.will_retain, props: vec![] }),
        5 => Some(WillSpec { topic: "w".into(), data: vec![0x33; 65536], qos: c.will_qos, retain: c.will_retain, props: vec![] }),
        // the longest will there is: 65535-byte payload, topic of two-byte characters
        _ => Some(WillSpec { topic: "w/\u{e9}\u{e9}".into(), data: (0..65535usize).map(|i| (i * 37 + 11) as u8).collect(), qos: c.will_qos, retain: c.will_retain, props: vec![p(0x18, PVal::U32(0xFFFF_FFFF))] }),
    };
    s
}

pub fn eval_connect(c: &ConnectCase) -> CaseOut {
    guarded("C09", || {
        let spec = connect_spec(c);
        let mut viol = Vec::new();
        let r = with_session(&spec, |bench, s| {
            let ca = connack(false, vec![]);
            let mut results = Vec::new();
            let rounds = if c.second { 2 } else { 1 };
            for round in 0..rounds {
                let ca = if round == 0 { ca.clone() } else { connack(true, vec![]) };
                let (res, id) = match connect(bench, s, &ca) {
                    Conn::Ok(conn, id) => {
                        drop(conn);
                        (Ok(()), id)
                    }
                    Conn::Err(e, id) => (Err(e), id),
                    Conn::Blocked(id) => (Err(Res::Cancelled), id),
                };
                results.push((res, bench.written(id)));
            }
            results
        });
        // a password or will payload of more than 65535 bytes cannot be encoded: the configuration or the connect
        // has to fail, and no CONNECT may go out
        let unencodable = c.auth >= 4 || c.will == 5;
        let results = match r {
            Built::Config(_) if unencodable => return CaseOut { class: 7, viol },
            Built::Config(e) => {
                flag(&mut viol, "config-refused", "connect", format!("valid configuration refused: {} ({:?})", e, c));
                return CaseOut { class: 1, viol };
            }
            Built::Ran(r) => r,
        };
        if unencodable {
            for (res, written) in &results {
                if res.is_ok() || !written.is_empty() {
                    flag(&mut viol, "unencodable-request-sent", "connect", format!("connect with a binary field longer than 65535 bytes: result {:?}, {} bytes written ({:?})", res, written.len(), c));
                }
            }
            return CaseOut { class: 8, viol };
        }
        let mut class = Vec::new();
        for (round, (res, written)) in results.iter().enumerate() {
            class.push(res.is_ok());
            match res {
                Err(e) => {
                    if !written.is_empty() {
                        flag(&mut viol, "error-but-sent", &format!("connect-{:?}", e), format!("connect failed with {:?} but {} bytes were written: {}", e, written.len(), mr::hex(written)));
                    }
                    if *e != Res::BufferTooSmall {
                        flag(&mut viol, "unexpected-error", &format!("connect-{:?}", e), format!("connect failed with {:?} for {:?}", e, c));
                    } else {
                        // exact length of the CONNECT asked for: "too little buffer" only if the transmit
                        // buffer cannot hold it plus the serializer's fixed-header reserve
                        let mut cp = Vec::new();
                        mr::put_props(&mut cp, &[p(0x27, PVal::U32(c.rx as u32)), p(0x11, PVal::U32(c.expiry)), p(0x21, PVal::U16(8))]);
                        let mut rem = 10 + cp.len() + 2 + spec.id.len();
                        if let Some(w) = &spec.will {
                            let mut wp = Vec::new();
                            mr::put_props(&mut wp, &w.props);
                            rem += wp.len() + 2 + w.topic.len() + 2 + w.data.len();
                        }
                        if let Some((u, pw)) = &spec.auth {
                            rem += 2 + u.len() + 2 + pw.len();
                        }
                        let total = 1 + mr::varint_len(rem as u32) + rem;
                        if round == 0 && spec.tx >= total + 4 {
                            flag(&mut viol, "request-refused-although-it-fits", "connect", format!("a {}-byte CONNECT refused with BufferTooSmall in an idle {}-byte transmit buffer: {:?}", total, spec.tx, c));
                        }
                    }
                }
                Ok(()) => match mr::decode_client(written) {
                    Ok((CPacket::Connect(cp), n)) if n == written.len() => {
                        let want_props = vec![p(0x27, PVal::U32(c.rx as u32)), p(0x11, PVal::U32(c.expiry)), p(0x21, PVal::U16(8))];
                        let mut got = cp.props.clone();
                        got.sort();
                        let mut want = want_props.clone();
                        // Session Expiry Interval 0 may be omitted (it is the default)
                        if c.expiry == 0 && !got.iter().any(|q| q.id == 0x11) {
                            want.retain(|q| q.id != 0x11);
                        }
                        want.sort();
                        let w = spec.will.as_ref();
                        let checks: Vec<(&str, bool)> = vec![
                            ("client-id", cp.client_id == spec.id.as_bytes()),
                            ("clean-start", cp.clean_start == (round == 0)),
                            ("keep-alive", cp.keep_alive == c.keepalive),
                            ("properties", got == want),
                            ("user", cp.user == spec.auth.as_ref().map(|a| a.0.as_bytes().to_vec())),
                            ("password", cp.pass == spec.auth.as_ref().map(|a| a.1.clone())),
                            ("will-present", cp.will.is_some() == w.is_some()),
                            ("will-topic", cp.will.as_ref().map(|x| x.topic.clone()) == w.map(|x| x.topic.as_bytes().to_vec())),
                            ("will-payload", cp.will.as_ref().map(|x| x.payload.clone()) == w.map(|x| x.data.clone())),
                            ("will-qos", cp.will.as_ref().map(|x| x.qos) == w.map(|x| x.qos)),
                            ("will-retain", cp.will.as_ref().map(|x| x.retain) == w.map(|x| x.retain)),
                            ("will-properties", match (cp.will.as_ref(), w) {
                                (Some(x), Some(y)) => mr::props_equiv(&x.props, &y.props),
                                (None, None) => true,
                                _ => false,
                            }),
                        ];
                        for (name, ok) in checks {
                            if !ok {
                                flag(&mut viol, "connect-field", name, format!("CONNECT decodes to {:?}, requested {:?}", cp, c));
                            }
                        }
                    }
                    other => flag(&mut viol, "connect-undecodable", "connect", format!("bytes written by connect(): {} -> {:?}", mr::hex(written), other.map(|x| x.0.name()))),
                },
            }
        }
        CaseOut { class: hash_of(&class), viol }
    })
}

fn connect_cases(tier: Tier) -> Vec<ConnectCase> {
    let mut v = Vec::new();
    let base = ConnectCase { rx: 64, tx: 256, id_len: 3, keepalive: 60, expiry: 100, auth: 0, will: 0, will_qos: 0, will_retain: false, second: false, decoys: false, id_mb: false };
    // every keep-alive value
    for ka in 0..=65535u16 {
        if tier == Tier::Quick && ka > 300 && ka % 251 != 0 && ka < 65000 {
            continue;
        }
        v.push(ConnectCase { keepalive: ka, ..base.clone() });
    }
    // configuration product
    for will in 0..4u8 {
        for will_qos in 0..3u8 {
            for will_retain in [false, true] {
                if will == 0 && (will_qos != 0 || will_retain) {
                    continue;
                }
                for auth in 0..4u8 {
                    for id_len in [0usize, 1, 23, 64] {
                        for expiry in [0u32, 1, 0xFFFF_FFFF] {
                            for second in [false, true] {
                                v.push(ConnectCase { will, will_qos, will_retain, auth, id_len, expiry, second, ..base.clone() });
                            }
                        }
                    }
                }
            }
        }
    }
    // each replaceable setter called twice: the last call counts
    for id_len in [0usize, 1, 23, 50, 64] {
        for (keepalive, expiry) in [(0u16, 0u32), (60, 100), (65535, 0xFFFF_FFFF)] {
            for auth in [0u8, 2] {
                for second in [false, true] {
                    v.push(ConnectCase { id_len, keepalive, expiry, auth, second, decoys: true, ..base.clone() });
                }
            }
        }
    }
    // client identifiers of two-byte characters up to exactly 64 bytes; the longest possible will
    for id_len in [2usize, 23, 63, 64] {
        for second in [false, true] {
            v.push(ConnectCase { id_len, id_mb: true, second, ..base.clone() });
        }
    }
    for will_qos in 0..3u8 {
        for auth in [0u8, 3] {
            v.push(ConnectCase { will: 4, will_qos, will_retain: will_qos == 2, auth, tx: 70_000, ..base.clone() });
        }
    }
    // binary fields one byte too long to be encoded
    v.push(ConnectCase { auth: 4, tx: 140_000, ..base.clone() });
    v.push(ConnectCase { will: 5, tx: 140_000, ..base.clone() });
    v.push(ConnectCase { will: 5, auth: 3, will_qos: 1, tx: 140_000, second: true, ..base.clone() });
    // receive-buffer sizes (advertised Maximum Packet Size) incl. the 1/2/3-byte varint boundaries of the value
    for rx in [5usize, 6, 24, 127, 128, 255, 256, 16383, 16384, 65535, 65536, 70000] {
        v.push(ConnectCase { rx, ..base.clone() });
    }
    // transmit arena from nothing up to "just fits" and a little beyond, for a small and a large CONNECT
    for (will, auth) in [(0u8, 0u8), (2, 3)] {
        for tx in 0..=140usize {
            v.push(ConnectCase { tx, will, auth, will_qos: 1, will_retain: will != 0, ..base.clone() });
        }
    }
    v
}

// ---------------------------------------------------------------------------------------------
// PUBLISH
// ---------------------------------------------------------------------------------------------

#[derive(Clone, Debug, Serialize, Deserialize)]
pub struct PubCase {
    pub tx: usize,
    pub topic_len: usize,
    pub payload_len: usize,
    pub qos: u8,
    pub retain: bool,
    /// index into the property-set table
    pub props: usize,
    /// correlate() with this many bytes (None = not called)
    pub correlate: Option<usize>,
    /// broker Maximum Packet Size (None = absent)
    pub max_packet: Option<u32>,
    /// call correlate() before properties() instead of after
    #[serde(default)]
    pub correlate_first: bool,
    /// 0 = ASCII topic, 1 = topic of multi-byte UTF-8 characters (length counts bytes, rounded down to whole characters)
    #[serde(default)]
    pub topic_kind: u8,
    /// 0 = Publication::bytes, 1 = Publication::new with a closure that uses its whole buffer as scratch, 2 = Publication::text,
    /// 3 = a closure that writes what fits and reports the length it needs, 4 = a closure that scribbles and fails
    #[serde(default)]
    pub payload_kind: u8,
    /// the CONNACK declares every optional capability unavailable (Retain Available, Wildcard / Shared Subscription
    /// Available, Subscription Identifiers Available = 0) and Maximum QoS 2 explicitly... 1 = those flags, 2 = flags = 1
    #[serde(default)]
    pub ca_flags: u8,
    /// Some(n): instead of the property-set table, one Content Type property of n bytes (property-block length boundaries)
    #[serde(default)]
    pub prop_str_len: Option<usize>,
    /// order of the builder calls (see `eval_pub`)
    #[serde(default)]
    pub order: u8,
    /// Some((character width class, offset, where)): a multi-byte character at a byte offset of the topic (0), the
    /// Content Type (1), the Response Topic (2), a User Property key (3) or value (4); replaces topic / properties
    #[serde(default)]
    pub mb: Option<(u8, usize, u8)>,
}

fn pub_prop_sets() -> Vec<Vec<Prop>> {
    let singles = vec![
        p(0x01, PVal::Byte(0)),
        p(0x01, PVal::Byte(1)),
        p(0x02, PVal::U32(0)),
        p(0x02, PVal::U32(0xFFFF_FFFF)),
        p(0x03, PVal::Str(vec![])),
        p(0x03, PVal::Str("t\u{e9}xt/\u{20ac}".as_bytes().to_vec())),
        p(0x08, PVal::Str(b"reply/to".to_vec())),
        p(0x09, PVal::Bin(vec![])),
        p(0x09, PVal::Bin((0..=255u8).collect())),
        p(0x26, PVal::Pair(vec![], vec![])),
        p(0x26, PVal::Pair(b"key".to_vec(), b"value".to_vec())),
        p(0x23, PVal::U16(1)),
        p(0x23, PVal::U16(65535)),
    ];
    let mut sets: Vec<Vec<Prop>> = vec![vec![]];
    for s in &singles {
        sets.push(vec![s.clone()]);
    }
    // all subsets of one representative per kind (7 kinds -> 128 subsets), in table order
    let reps = [singles[1].clone(), singles[3].clone(), singles[5].clone(), singles[6].clone(), singles[8].clone(), singles[10].clone(), singles[11].clone()];
    for mask in 1u32..128 {
        let set: Vec<Prop> = (0..7).filter(|i| mask >> i & 1 == 1).map(|i| reps[i].clone()).collect();
        if set.len() > 1 {
            sets.push(set);
        }
    }
    // repeated user properties keep their order
    sets.push(vec![p(0x26, PVal::Pair(b"a".to_vec(), b"1".to_vec())), p(0x26, PVal::Pair(b"a".to_vec(), b"2".to_vec())), p(0x26, PVal::Pair(b"b".to_vec(), b"".to_vec()))]);
    // a property block longer than 127 bytes (two-byte property length)
    sets.push(vec![p(0x03, PVal::Str(vec![b'x'; 130]))]);
    sets
}

pub fn eval_pub(c: &PubCase) -> CaseOut {
    guarded("C09", || {
        let sets = pub_prop_sets();
        let props_ref = match (c.prop_str_len, c.mb) {
            (_, Some((ch, k, place))) if place > 0 => {
                let st = mb_string(ch, k).into_bytes();
                vec![match place {
                    1 => p(0x03, PVal::Str(st)),
                    2 => p(0x08, PVal::Str(st)),
                    3 => p(0x26, PVal::Pair(st, b"v".to_vec())),
                    _ => p(0x26, PVal::Pair(b"k".to_vec(), st)),
                }]
            }
            (Some(n), _) => vec![p(0x03, PVal::Str(vec![b'c'; n])), p(0x26, PVal::Pair(b"k".to_vec(), vec![]))],
            _ => sets[c.props % sets.len()].clone(),
        };
        let topic: String = match c.topic_kind {
            _ if matches!(c.mb, Some((_, _, 0))) => {
                let (ch, k, _) = c.mb.unwrap();
                mb_string(ch, k)
            }
            0 => "t".repeat(c.topic_len),
            // 2-, 3- and 4-byte characters in turn (9 bytes per round), filled up with ASCII
            _ => {
                let mut t = "\u{e9}\u{20ac}\u{1f600}".repeat(c.topic_len / 9);
                t.push_str(&"t".repeat(c.topic_len % 9));
                t
            }
        };
        if c.mb.is_none() {
            assert_eq!(topic.len(), c.topic_len);
        }
        let payload: Vec<u8> = match c.payload_kind {
            2 => (0..c.payload_len).map(|i| b"az09 /"[i % 6]).collect(),
            _ => (0..c.payload_len).map(|i| ((i * 37 + 11) % 256) as u8).collect(),
        };
        let corr: Option<Vec<u8>> = c.correlate.map(|n| (0..n).map(|i| (255 - i % 256) as u8).collect());
        let spec = Spec::plain(64, c.tx);
        let mut viol = Vec::new();
        let out = with_session(&spec, |bench, s| {
            let mut ca_props = c.max_packet.map(|m| vec![p(0x27, PVal::U32(m))]).unwrap_or_default();
            if c.ca_flags != 0 {
                let v = c.ca_flags - 1;
                ca_props.extend([p(0x25, PVal::Byte(v)), p(0x28, PVal::Byte(v)), p(0x29, PVal::Byte(v)), p(0x2A, PVal::Byte(v)), p(0x22, PVal::U16(0))]);
            }
            let ca = connack(false, ca_props);
            let Conn::Ok(mut conn, id) = connect(bench, s, &ca) else { return None };
            let before = bench.written(id).len();
            let props = props_of(&props_ref);
            // the builder calls are chained in the `order`-th of their 24 orders (order 0 = qos, properties,
            // correlate, retain, or with `correlate_first` qos, correlate, properties, retain)
            let perm: Vec<u8> = if c.order == 0 {
                if c.correlate_first { vec![0, 2, 1, 3] } else { vec![0, 1, 2, 3] }
            } else {
                let mut steps = vec![0u8, 1, 2, 3];
                let mut k = (c.order % 24) as usize;
                let mut perm = Vec::new();
                for n in (1..=4usize).rev() {
                    let f: usize = (1..n).product();
                    perm.push(steps.remove(k / f));
                    k %= f;
                }
                perm
            };
            macro_rules! chain {
                ($q:expr) => {{
                    let mut q = $q;
                    for st in &perm {
                        q = match *st {
                            0 if c.qos != 0 || c.order == 0 => q.qos(qos_of(c.qos)),
                            1 => q.properties(&props),
                            2 => match &corr {
                                Some(cd) => q.correlate(cd),
                                None => q,
                            },
                            3 if c.retain => q.retain(),
                            _ => q,
                        };
                    }
                    q
                }};
            }
            let r = match c.payload_kind {
                1 => {
                    let src = payload.clone();
                    let f = move |buf: &mut [u8]| -> Result<usize, ()> {
                        if buf.len() < src.len() {
                            return Err(());
                        }
                        buf.fill(0xDD);
                        buf[..src.len()].copy_from_slice(&src);
                        Ok(src.len())
                    };
                    let q = chain!(Publication::new(&topic, f));
                    bench.run(conn.publish(q), id)
                }
                3 => {
                    // a writer in the style of snprintf: writes what fits and reports the length it needs
                    let src = payload.clone();
                    let f = move |buf: &mut [u8]| -> Result<usize, ()> {
                        let n = buf.len().min(src.len());
                        buf[..n].copy_from_slice(&src[..n]);
                        Ok(src.len())
                    };
                    let q = chain!(Publication::new(&topic, f));
                    bench.run(conn.publish(q), id)
                }
                4 => {
                    // a writer that scribbles over all it is given and then gives up
                    let f = move |buf: &mut [u8]| -> Result<usize, ()> {
                        buf.fill(0x30);
                        Err(())
                    };
                    let q = chain!(Publication::new(&topic, f));
                    bench.run(conn.publish(q), id)
                }
                2 => {
                    let text = std::str::from_utf8(&payload).unwrap();
                    let q = chain!(Publication::text(&topic, text));
                    bench.run(conn.publish(q), id)
                }
                _ => {
                    let q = chain!(Publication::bytes(&topic, &payload));
                    bench.run(conn.publish(q), id)
                }
            };
            let r = match r {
                Some(Ok(h)) => Ok(h.is_some()),
                Some(Err(e)) => Err(Res::from_pub(&e)),
                None => Err(Res::Cancelled),
            };
            let quiescent = conn.session().is_publish_quiescent();
            Some((r, bench.written(id)[before..].to_vec(), quiescent, conn.is_connected()))
        });
        let Built::Ran(out) = out else { panic!("machinery: config refused") };
        let Some((r, written, quiescent, alive)) = out else { return CaseOut { class: 99, viol } };
        // what the request should look like on the wire
        let mut want_props: Vec<Prop> = Vec::new();
        if let Some(cd) = &corr {
            want_props.push(p(0x09, PVal::Bin(cd.clone())));
        }
        want_props.extend(props_ref.iter().cloned());
        let topic_len = topic.len();
        let legal_request = topic_len >= 1
            && topic_len <= 65535
            && corr.as_ref().map_or(true, |x| x.len() <= 65535)
            && !(corr.is_some() && props_ref.iter().any(|q| q.id == 0x09));
        // a field longer than 65535 bytes cannot be encoded at all: such a request has to fail
        let encodable = topic_len <= 65535
            && corr.as_ref().map_or(true, |x| x.len() <= 65535)
            && want_props.iter().all(|q| match &q.val {
                PVal::Str(v) | PVal::Bin(v) => v.len() <= 65535,
                PVal::Pair(k, v) => k.len() <= 65535 && v.len() <= 65535,
                _ => true,
            });
        let class;
        match r {
            Ok(has_handle) => {
                class = 1u8;
                if c.payload_kind == 4 {
                    flag(&mut viol, "failed-payload-writer-ignored", &format!("qos{}", c.qos), format!("the payload writer returned an error but publish returned Ok and {} bytes were written", written.len()));
                }
                if !encodable {
                    flag(&mut viol, "unencodable-request-sent", &format!("qos{}", c.qos), format!("publish with a field longer than 65535 bytes returned Ok and {} bytes were written ({:?})", written.len(), c));
                }
                if has_handle != (c.qos > 0) {
                    flag(&mut viol, "handle", &format!("qos{}", c.qos), format!("publish at QoS {} returned handle={}", c.qos, has_handle));
                }
                match mr::decode_client(&written) {
                    Ok((CPacket::Publish(pp), n)) if n == written.len() => {
                        let checks: Vec<(&str, bool)> = vec![
                            ("topic", pp.topic == topic.as_bytes()),
                            ("payload", pp.payload == payload),
                            ("qos", pp.qos == c.qos),
                            ("retain", pp.retain == c.retain),
                            ("dup", !pp.dup),
                            ("properties", mr::props_equiv(&pp.props, &want_props)),
                            ("packet-id", (c.qos > 0) == pp.pid.is_some()),
                        ];
                        for (name, ok) in checks {
                            if !ok {
                                flag(&mut viol, "publish-field", name, format!("PUBLISH decodes to topic_len={} payload_len={} qos={} retain={} props={:?}; requested {:?} props {:?}", pp.topic.len(), pp.payload.len(), pp.qos, pp.retain, pp.props, c, want_props));
                            }
                        }
                        if let Some(m) = c.max_packet {
                            if written.len() as u64 > m as u64 {
                                flag(&mut viol, "oversize-sent", "publish", format!("{} bytes sent, broker maximum {}", written.len(), m));
                            }
                        }
                    }
                    other => {
                        let why = match &other {
                            Err(e) => format!("{:?}", e),
                            Ok((pk, n)) => format!("{} of {} bytes ({} written)", pk.name(), n, written.len()),
                        };
                        // a request that MQTT itself forbids and the client does not police is not C09's business
                        if legal_request {
                            flag(&mut viol, "publish-undecodable", &format!("qos{}", c.qos), format!("publish returned Ok but the wire holds {} bytes: {} [{}...]", written.len(), why, mr::hex(&written[..written.len().min(48)])));
                        }
                    }
                }
            }
            Err(e) => {
                class = 2;
                if !written.is_empty() {
                    flag(&mut viol, "error-but-sent", &format!("publish-{:?}", e), format!("publish failed with {:?} but {} bytes were written", e, written.len()));
                }
                if !quiescent {
                    flag(&mut viol, "error-but-retained", &format!("publish-{:?}", e), format!("publish failed with {:?} but something stays retained", e));
                }
                if !alive && !matches!(e, Res::Transport | Res::Disconnected) {
                    flag(&mut viol, "error-kills-handle", &format!("publish-{:?}", e), format!("local failure {:?} closed the handle", e));
                }
                // (a client may refuse to use a capability the broker has declared unavailable: any clean refusal will do)
                let acceptable = matches!(e, Res::BufferTooSmall | Res::Payload | Res::PacketTooLarge | Res::InvalidRequest) || (c.ca_flags == 1 && c.retain);
                if e == Res::BufferTooSmall && legal_request {
                    // "too little buffer" only when the idle transmit buffer cannot hold the packet plus the
                    // serializer's fixed-header reserve (at most 4 bytes more than the packet itself)
                    let mut pb = Vec::new();
                    mr::put_props(&mut pb, &want_props);
                    let rem = 2 + topic_len + if c.qos > 0 { 2 } else { 0 } + pb.len() + c.payload_len;
                    let total = 1 + mr::varint_len(rem as u32) + rem;
                    if rem <= 268_435_455 && c.tx >= total + 4 {
                        flag(&mut viol, "request-refused-although-it-fits", "publish", format!("a {}-byte PUBLISH refused with BufferTooSmall in an idle {}-byte transmit buffer: {:?}", total, c.tx, c));
                    }
                }
                if !acceptable {
                    flag(&mut viol, "unexpected-error", &format!("publish-{:?}", e), format!("{:?} for {:?}", e, c));
                }
                if e == Res::InvalidRequest && legal_request && !(c.ca_flags == 1 && c.retain) {
                    flag(&mut viol, "valid-refused", "publish", format!("legal request refused as invalid: {:?}", c));
                }
            }
        }
        CaseOut { class: hash_of(&(class, c.qos, written.len().min(5), mr::varint_len(written.len() as u32))), viol }
    })
}

fn pub_cases(tier: Tier) -> Vec<PubCase> {
    let mut v = Vec::new();
    let nsets = pub_prop_sets().len();
    let base = PubCase { tx: 512, topic_len: 1, payload_len: 2, qos: 0, retain: false, props: 0, correlate: None, max_packet: None, correlate_first: false, topic_kind: 0, payload_kind: 0, ca_flags: 0, prop_str_len: None, order: 0, mb: None };
    // flags x property sets x correlate
    for qos in 0..3u8 {
        for retain in [false, true] {
            for props in 0..nsets {
                for correlate in [None, Some(0usize), Some(5)] {
                    v.push(PubCase { qos, retain, props, correlate, tx: 1024, ..base.clone() });
                    if correlate.is_some() {
                        v.push(PubCase { qos, retain, props, correlate, tx: 1024, correlate_first: true, ..base.clone() });
                    }
                }
            }
        }
    }
    // every order of chaining qos / properties / correlate / retain
    for order in 1..24u8 {
        for qos in 0..3u8 {
            for retain in [false, true] {
                for (props, correlate) in [(0usize, None), (11, None), (0, Some(4usize)), (11, Some(4)), (nsets - 2, Some(0))] {
                    for payload_kind in 0..3u8 {
                        v.push(PubCase { qos, retain, props, correlate, payload_kind, order, tx: 1024, ..base.clone() });
                    }
                }
            }
        }
    }
    // a multi-byte character at every byte offset of every string of a PUBLISH
    for ch in 0..3u8 {
        for k in 0..=72usize {
            for place in 0..5u8 {
                v.push(PubCase { qos: (k % 3) as u8, mb: Some((ch, k, place)), tx: 1024, ..base.clone() });
            }
        }
    }
    // remaining length across the 1/2, 2/3 and 3/4 byte boundaries (qos 0: remaining = 4 + payload; qos>0: 6 + payload)
    let mut lens = vec![0usize, 1, 120, 121, 122, 123, 124, 125, 126, 127, 128, 16374, 16376, 16378, 16379, 16380, 16381, 16382, 16383, 16384, 16385];
    if tier == Tier::Thorough {
        lens.extend([2097140, 2097144, 2097145, 2097146, 2097147, 2097148, 2097149, 2097150, 2097151, 2097152, 2097153]);
    } else {
        lens.extend([2097145, 2097147, 2097148]);
    }
    for n in lens {
        for qos in 0..3u8 {
            v.push(PubCase { qos, payload_len: n, tx: n + 64, ..base.clone() });
        }
    }
    // topic and correlation data lengths around 65535
    for topic_len in [0usize, 1, 127, 128, 65534, 65535, 65536, 70000] {
        for qos in [0u8, 1] {
            v.push(PubCase { topic_len, qos, tx: 80_000, ..base.clone() });
        }
    }
    for cd in [65534usize, 65535, 65536, 70000] {
        for qos in [0u8, 2] {
            v.push(PubCase { correlate: Some(cd), qos, tx: 80_000, ..base.clone() });
        }
    }
    // the three ways to hand over a payload x topics of multi-byte characters, over lengths around the varint
    // boundaries, with and without properties
    for payload_kind in 0..3u8 {
        for topic_kind in 0..2u8 {
            if payload_kind == 0 && topic_kind == 0 {
                continue;
            }
            for qos in 0..3u8 {
                for (topic_len, payload_len) in [(1usize, 0usize), (9, 0), (9, 1), (27, 100), (20, 101), (127, 5), (128, 5), (130, 16250), (9, 16370), (9, 16371), (9, 16372), (9, 16373), (9, 16374), (9, 16375), (65535, 3)] {
                    for props in [0usize, 11, nsets - 1] {
                        for correlate in [None, Some(3usize)] {
                            v.push(PubCase { qos, topic_kind, payload_kind, topic_len, payload_len, props, correlate, tx: topic_len + payload_len + 400, ..base.clone() });
                        }
                    }
                }
            }
        }
    }
    // the property block's own length across its 1/2 and 2/3 byte boundaries (Content Type of n bytes plus a user
    // property with an empty value: block = 3 + n + 6), with and without payload
    let mut ns: Vec<usize> = (100..=140).collect();
    ns.extend(16360..=16390);
    ns.extend([65533, 65534, 65535]);
    for n in ns {
        for qos in [0u8, 1] {
            for payload_len in [0usize, 7] {
                for payload_kind in [0u8, 1] {
                    v.push(PubCase { qos, payload_len, payload_kind, prop_str_len: Some(n), tx: n + 200, ..base.clone() });
                }
            }
        }
    }
    // payloads from empty to larger than the whole transmit buffer, for each way of handing the payload over: what
    // does not fit is refused, never clipped
    for tx in [24usize, 40, 64, 100] {
        for payload_len in 0..=tx + 12 {
            for qos in 0..3u8 {
                for payload_kind in 0..5u8 {
                    if payload_kind == 4 && payload_len > 2 {
                        continue;
                    }
                    v.push(PubCase { tx, qos, payload_len, payload_kind, ..base.clone() });
                }
            }
        }
    }
    // the broker declares its optional capabilities (Retain Available, ...) unavailable, or available, in the CONNACK:
    // what is sent is what was asked for
    for ca_flags in [1u8, 2] {
        for qos in 0..3u8 {
            for retain in [false, true] {
                for payload_kind in 0..3u8 {
                    for props in [0usize, 11] {
                        v.push(PubCase { qos, retain, payload_kind, props, ca_flags, ..base.clone() });
                    }
                }
            }
        }
    }
    // buffer sizes from nothing to "just fits" (payload 10, topic 1: 16/18 bytes on the wire)
    for tx in 30..=70usize {
        for qos in 0..3u8 {
            for props in [0usize, 11] {
                v.push(PubCase { tx, qos, payload_len: 10, props, ..base.clone() });
            }
        }
    }
    v
}

// ---------------------------------------------------------------------------------------------
// SUBSCRIBE / UNSUBSCRIBE
// ---------------------------------------------------------------------------------------------

#[derive(Clone, Debug, Serialize, Deserialize)]
pub struct SubCase {
    pub unsubscribe: bool,
    /// per filter: (length, option code 0..36)
    pub filters: Vec<(usize, u8)>,
    pub props: usize,
    pub tx: usize,
    /// order in which the four builder calls of `SubscriptionOptions` are chained (0..24; calls for options left at
    /// their default are made only for orders >= 24: 24..48 = the same orders with every call made explicitly)
    #[serde(default)]
    pub order: u8,
    /// Some((character width class, offset)): the first filter has a multi-byte character at that byte offset
    #[serde(default)]
    pub mb: Option<(u8, usize)>,
}

fn sub_prop_sets() -> Vec<Vec<Prop>> {
    let mut sets = vec![vec![]];
    for v in [1u32, 127, 128, 16383, 16384, 2097151, 2097152, 268_435_455] {
        sets.push(vec![p(0x0B, PVal::Var(v))]);
    }
    sets.push(vec![p(0x26, PVal::Pair(b"k".to_vec(), b"v".to_vec()))]);
    sets.push(vec![p(0x0B, PVal::Var(300)), p(0x26, PVal::Pair(b"k".to_vec(), b"v".to_vec())), p(0x26, PVal::Pair(b"k".to_vec(), b"w".to_vec()))]);
    sets
}

fn option_byte(code: u8, order: u8) -> (u8, SubscriptionOptions) {
    let qos = code % 3;
    let nl = (code / 3) % 2 == 1;
    let rap = (code / 6) % 2 == 1;
    let rh = (code / 12) % 3;
    // the k-th permutation of the four builder calls
    let mut steps = vec![0u8, 1, 2, 3];
    let mut k = (order % 24) as usize;
    let mut perm = Vec::new();
    for n in (1..=4usize).rev() {
        let f: usize = (1..n).product();
        perm.push(steps.remove(k / f));
        k %= f;
    }
    let explicit = order >= 24;
    let mut o = SubscriptionOptions::default();
    for st in perm {
        o = match st {
            0 if qos != 0 || explicit || order == 0 => o.maximum_qos(qos_of(qos)),
            1 if rh != 0 || explicit || order == 0 => o.retain_behavior(match rh {
                0 => RetainHandling::Immediately,
                1 => RetainHandling::IfSubscriptionDoesNotExist,
                _ => RetainHandling::Never,
            }),
            2 if nl => o.ignore_local_messages(),
            3 if rap => o.retain_as_published(),
            _ => o,
        };
    }
    (qos | (nl as u8) << 2 | (rap as u8) << 3 | rh << 4, o)
}

pub fn eval_sub(c: &SubCase) -> CaseOut {
    guarded("C09", || {
        let sets = sub_prop_sets();
        let props_ref: Vec<Prop> = if c.unsubscribe {
            sets[c.props % sets.len()].iter().filter(|q| q.id == 0x26).cloned().collect()
        } else {
            sets[c.props % sets.len()].clone()
        };
        let names: Vec<String> = c.filters.iter().enumerate().map(|(i, (n, _))| {
            let mut s = format!("{}", i);
            while s.len() < *n {
                s.push(if s.len() % 7 == 3 { '/' } else { 'f' });
            }
            s.truncate(*n);
            match c.mb {
                Some((ch, k)) if i == 0 => mb_string(ch, k),
                _ => s,
            }
        }).collect();
        let spec = Spec::plain(64, c.tx);
        let mut viol = Vec::new();
        let out = with_session(&spec, |bench, s| {
            let Conn::Ok(mut conn, id) = connect(bench, s, &connack(false, vec![])) else { return None };
            let before = bench.written(id).len();
            let props = props_of(&props_ref);
            let r = if c.unsubscribe {
                let t: Vec<&str> = names.iter().map(|x| x.as_str()).collect();
                bench.run(conn.unsubscribe(&t, &props), id).map(|r| r.map(|_| ()).map_err(|e| Res::from_err(&e)))
            } else {
                let t: Vec<TopicFilter<'_>> = names.iter().zip(c.filters.iter()).map(|(n, (_, code))| TopicFilter::new(n).options(option_byte(*code, c.order).1)).collect();
                bench.run(conn.subscribe(&t, &props), id).map(|r| r.map(|_| ()).map_err(|e| Res::from_err(&e)))
            };
            Some((r.unwrap_or(Err(Res::Cancelled)), bench.written(id)[before..].to_vec(), conn.session().is_publish_quiescent()))
        });
        let Built::Ran(out) = out else { panic!("machinery: config refused") };
        let Some((r, written, quiescent)) = out else { return CaseOut { class: 99, viol } };
        let legal = !c.filters.is_empty() && c.filters.iter().all(|(n, _)| *n >= 1 && *n <= 65535);
        let kind = if c.unsubscribe { "unsubscribe" } else { "subscribe" };
        match r {
            Ok(()) => {
                match mr::decode_client(&written) {
                    Ok((CPacket::Subscribe { props, filters, .. }, n)) if n == written.len() && !c.unsubscribe => {
                        let want: Vec<(Vec<u8>, u8)> = names.iter().zip(c.filters.iter()).map(|(n, (_, code))| (n.as_bytes().to_vec(), option_byte(*code, c.order).0)).collect();
                        if filters != want {
                            flag(&mut viol, "subscribe-field", "filters", format!("SUBSCRIBE decodes to {:?}, requested {:?}", filters.iter().map(|f| (f.0.len(), f.1)).collect::<Vec<_>>(), c));
                        }
                        if !mr::props_equiv(&props, &props_ref) {
                            flag(&mut viol, "subscribe-field", "properties", format!("SUBSCRIBE carries {:?}, requested {:?}", props, props_ref));
                        }
                    }
                    Ok((CPacket::Unsubscribe { props, filters, .. }, n)) if n == written.len() && c.unsubscribe => {
                        let want: Vec<Vec<u8>> = names.iter().map(|n| n.as_bytes().to_vec()).collect();
                        if filters != want {
                            flag(&mut viol, "unsubscribe-field", "filters", format!("UNSUBSCRIBE decodes to {} filters, requested {:?}", filters.len(), c));
                        }
                        if !mr::props_equiv(&props, &props_ref) {
                            flag(&mut viol, "unsubscribe-field", "properties", format!("UNSUBSCRIBE carries {:?}, requested {:?}", props, props_ref));
                        }
                    }
                    other => {
                        if legal {
                            flag(&mut viol, "undecodable", kind, format!("{} returned Ok but the wire holds {:?} [{}]", kind, other.map(|x| x.0.name()), mr::hex(&written[..written.len().min(48)])));
                        }
                    }
                }
            }
            Err(e) => {
                if !written.is_empty() {
                    flag(&mut viol, "error-but-sent", &format!("{}-{:?}", kind, e), format!("{} failed with {:?} but {} bytes were written", kind, e, written.len()));
                }
                if !quiescent {
                    flag(&mut viol, "error-but-retained", &format!("{}-{:?}", kind, e), format!("{} failed with {:?} but something stays retained", kind, e));
                }
                if !matches!(e, Res::BufferTooSmall | Res::InvalidRequest) {
                    flag(&mut viol, "unexpected-error", &format!("{}-{:?}", kind, e), format!("{:?} for {:?}", e, c));
                }
                if e == Res::BufferTooSmall && legal {
                    let mut pb = Vec::new();
                    mr::put_props(&mut pb, &props_ref);
                    let rem = 2 + pb.len() + c.filters.iter().map(|f| 2 + f.0 + if c.unsubscribe { 0 } else { 1 }).sum::<usize>();
                    let total = 1 + mr::varint_len(rem as u32) + rem;
                    if rem <= 268_435_455 && c.tx >= total + 4 {
                        flag(&mut viol, "request-refused-although-it-fits", kind, format!("a {}-byte {} refused with BufferTooSmall in an idle {}-byte transmit buffer: {:?}", total, kind, c.tx, c));
                    }
                }
                if e == Res::InvalidRequest && legal {
                    flag(&mut viol, "valid-refused", kind, format!("legal request refused as invalid: {:?}", c));
                }
            }
        }
        CaseOut { class: hash_of(&(r.is_ok(), c.unsubscribe, c.filters.len(), written.len().min(4))), viol }
    })
}

fn sub_cases(_tier: Tier) -> Vec<SubCase> {
    let mut v = Vec::new();
    let nsets = sub_prop_sets().len();
    for code in 0..36u8 {
        for props in 0..nsets {
            v.push(SubCase { unsubscribe: false, filters: vec![(3, code)], props, tx: 256, order: 0, mb: None });
        }
    }
    // every order of chaining the builder calls, with and without the calls that only restate a default
    for code in 0..36u8 {
        for order in 1..48u8 {
            v.push(SubCase { unsubscribe: false, filters: vec![(3, code)], props: 0, tx: 256, order, mb: None });
        }
    }
    for a in 0..36u8 {
        for b in 0..36u8 {
            v.push(SubCase { unsubscribe: false, filters: vec![(2, a), (5, b)], props: 0, tx: 256, order: 0, mb: None });
        }
    }
    for n in [0usize, 1, 2, 3] {
        for props in [0usize, 9, 10] {
            v.push(SubCase { unsubscribe: true, filters: (0..n).map(|i| (1 + 2 * i, 0)).collect(), props, tx: 256, order: 0, mb: None });
            v.push(SubCase { unsubscribe: false, filters: (0..n).map(|i| (1 + 2 * i, (i * 7) as u8)).collect(), props, tx: 256, order: 0, mb: None });
        }
    }
    // many filters in one request (the remaining length crosses 127 and 16383 by count, not by one long filter); the
    // same filter twice
    for n in [4usize, 7, 8, 9, 15, 16, 17, 24, 31, 32, 33, 40, 64, 200, 255, 256, 257, 2000] {
        for props in [0usize, 9] {
            v.push(SubCase { unsubscribe: true, filters: (0..n).map(|i| (1 + i % 5, 0)).collect(), props, tx: 20_000, order: 0, mb: None });
            v.push(SubCase { unsubscribe: false, filters: (0..n).map(|i| (1 + i % 5, (i % 36) as u8)).collect(), props, tx: 20_000, order: 0, mb: None });
        }
    }
    for ch in 0..3u8 {
        for k in 0..=72usize {
            v.push(SubCase { unsubscribe: false, filters: vec![(3, (k % 36) as u8), (2, 1)], props: 0, tx: 512, order: 0, mb: Some((ch, k)) });
            v.push(SubCase { unsubscribe: true, filters: vec![(3, 0)], props: 0, tx: 512, order: 0, mb: Some((ch, k)) });
        }
    }
    v.push(SubCase { unsubscribe: false, filters: vec![(3, 1), (3, 1)], props: 0, tx: 256, order: 0, mb: None });
    v.push(SubCase { unsubscribe: false, filters: vec![(3, 1), (3, 20)], props: 0, tx: 256, order: 0, mb: None });
    v.push(SubCase { unsubscribe: true, filters: vec![(3, 0), (3, 0)], props: 0, tx: 256, order: 0, mb: None });
    for len in [0usize, 1, 127, 128, 65535, 65536] {
        v.push(SubCase { unsubscribe: false, filters: vec![(len, 1)], props: 0, tx: 70_000, order: 0, mb: None });
        v.push(SubCase { unsubscribe: true, filters: vec![(len, 0)], props: 0, tx: 70_000, order: 0, mb: None });
    }
    for tx in 30..=60usize {
        v.push(SubCase { unsubscribe: false, filters: vec![(3, 1)], props: 0, tx, order: 0, mb: None });
        v.push(SubCase { unsubscribe: true, filters: vec![(3, 0)], props: 0, tx, order: 0, mb: None });
    }
    v
}

// ---------------------------------------------------------------------------------------------
// DISCONNECT and acknowledgements
// ---------------------------------------------------------------------------------------------

#[derive(Clone, Debug, Serialize, Deserialize)]
pub struct DiscCase {
    /// None = Disconnect::success(), Some(code) = with_reason(ReasonCode::from(code))
    pub reason: Option<u8>,
    /// 0 = no with_properties call, else index+1 into the table
    pub props: usize,
    /// Some(i): the reason is the i-th NAMED variant of the crate's enum (table `NAMED_REASONS`, values transcribed
    /// from MQTT 5 table 2-6 by name); `reason` is then ignored
    #[serde(default)]
    pub named: Option<usize>,
}

/// Reason codes by their MQTT 5 names (section 2.4, table 2-6), paired with the crate's variant of that name.
pub fn named_reasons() -> Vec<(&'static str, ReasonCode, u8)> {
    use ReasonCode::*;
    vec![
        ("Success / Normal disconnection", Success, 0x00),
        ("Granted QoS 1", GrantedQos1, 0x01),
        ("Granted QoS 2", GrantedQos2, 0x02),
        ("Disconnect with Will Message", DisconnectWithWill, 0x04),
        ("No matching subscribers", NoMatchingSubscribers, 0x10),
        ("No subscription existed", NoSubscriptionExisted, 0x11),
        ("Continue authentication", ContinueAuthentication, 0x18),
        ("Re-authenticate", Reauthenticate, 0x19),
        ("Unspecified error", UnspecifiedError, 0x80),
        ("Malformed Packet", MalformedPacket, 0x81),
        ("Protocol Error", ProtocolError, 0x82),
        ("Implementation specific error", ImplementationError, 0x83),
        ("Unsupported Protocol Version", UnsupportedProtocol, 0x84),
        ("Client Identifier not valid", ClientIdentifierInvalid, 0x85),
        ("Bad User Name or Password", BadUsernameOrPassword, 0x86),
        ("Not authorized", NotAuthorized, 0x87),
        ("Server unavailable", ServerUnavailable, 0x88),
        ("Server busy", ServerBusy, 0x89),
        ("Banned", Banned, 0x8A),
        ("Server shutting down", ServerShuttingDown, 0x8B),
        ("Bad authentication method", BadAuthMethod, 0x8C),
        ("Keep Alive timeout", KeepAliveTimeout, 0x8D),
        ("Session taken over", SessionTakenOver, 0x8E),
        ("Topic Filter invalid", TopicFilterInvalid, 0x8F),
        ("Topic Name invalid", TopicNameInvalid, 0x90),
        ("Packet Identifier in use", PacketIdInUse, 0x91),
        ("Packet Identifier not found", PacketIdNotFound, 0x92),
        ("Receive Maximum exceeded", ReceiveMaxExceeded, 0x93),
        ("Topic Alias invalid", TopicAliasInvalid, 0x94),
        ("Packet too large", PacketTooLarge, 0x95),
        ("Message rate too high", MessageRateTooHigh, 0x96),
        ("Quota exceeded", QuotaExceeded, 0x97),
        ("Administrative action", AdministrativeAction, 0x98),
        ("Payload format invalid", PayloadFormatInvalid, 0x99),
        ("Retain not supported", RetainNotSupported, 0x9A),
        ("QoS not supported", QoSNotSupported, 0x9B),
        ("Use another server", UseAnotherServer, 0x9C),
        ("Server moved", ServerMoved, 0x9D),
        ("Shared Subscriptions not supported", SharedSubscriptionsNotSupported, 0x9E),
        ("Connection rate exceeded", ConnectionRateExceeded, 0x9F),
        ("Maximum connect time", MaximumConnectTime, 0xA0),
        ("Subscription Identifiers not supported", SubscriptionIdentifiersNotSupported, 0xA1),
        ("Wildcard Subscriptions not supported", WildcardSubscriptionsNotSupported, 0xA2),
    ]
}

fn disc_prop_sets() -> Vec<Vec<Prop>> {
    vec![
        vec![],
        vec![p(0x11, PVal::U32(0))],
        vec![p(0x11, PVal::U32(0xFFFF_FFFF))],
        vec![p(0x1F, PVal::Str(vec![]))],
        vec![p(0x1F, PVal::Str(b"x".to_vec()))],
        vec![p(0x1F, PVal::Str(b"bye".to_vec()))],
        vec![p(0x26, PVal::Pair(vec![], vec![]))],
        vec![p(0x26, PVal::Pair(b"k".to_vec(), b"v".to_vec()))],
        vec![p(0x1F, PVal::Str(b"a long reason string".to_vec()))],
    ]
}

pub fn eval_disc(c: &DiscCase) -> CaseOut {
    guarded("C09", || {
        let sets = disc_prop_sets();
        let props_ref = if c.props == 0 { vec![] } else { sets[(c.props - 1) % sets.len()].clone() };
        let spec = Spec::plain(64, 64);
        let mut viol = Vec::new();
        let out = with_session(&spec, |bench, s| {
            let Conn::Ok(mut conn, id) = connect(bench, s, &connack(false, vec![])) else { return None };
            let before = bench.written(id).len();
            let props = props_of(&props_ref);
            let mut d = match (c.named, c.reason) {
                (Some(i), _) => Disconnect::with_reason(named_reasons()[i].1),
                (None, None) => Disconnect::success(),
                (None, Some(code)) => Disconnect::with_reason(ReasonCode::from(code)),
            };
            if c.props != 0 {
                d = d.with_properties(&props);
            }
            let r = bench.run(conn.disconnect_with(d), id).map(|r| r.map_err(|e| Res::from_err(&e))).unwrap_or(Err(Res::Cancelled));
            Some((r, bench.written(id)[before..].to_vec(), conn.is_connected()))
        });
        let Built::Ran(out) = out else { panic!("machinery: config refused") };
        let Some((r, written, alive)) = out else { return CaseOut { class: 99, viol } };
        // every reason code MQTT 5 defines (for any packet type) travels as it is; ReasonCode::from maps
        // undefined bytes to Unknown (0xFF)
        let known: [u8; 53] = [0x00, 0x01, 0x02, 0x04, 0x10, 0x11, 0x18, 0x19, 0x80, 0x81, 0x82, 0x83, 0x84, 0x85, 0x86, 0x87, 0x88, 0x89, 0x8a, 0x8b, 0x8c, 0x8d, 0x8e, 0x8f, 0x90, 0x91, 0x92, 0x93, 0x94, 0x95, 0x96, 0x97, 0x98, 0x99, 0x9a, 0x9b, 0x9c, 0x9d, 0x9e, 0x9f, 0xa0, 0xa1, 0xa2, 0xFF, 0, 0, 0, 0, 0, 0, 0, 0, 0];
        let want_reason = match c.reason {
            _ if c.named.is_some() => named_reasons()[c.named.unwrap()].2,
            None => 0u8,
            Some(code) if known[..44].contains(&code) => code,
            Some(_) => 0xFF,
        };
        match r {
            Ok(()) => {
                if alive {
                    flag(&mut viol, "disconnect-alive", "disconnect", "handle still connected after disconnect".into());
                }
                // the strict decoder refuses reason codes that are not defined for DISCONNECT; the
                // application asked for them, so only the bytes matter here
                let lenient = decode_disconnect(&written);
                match lenient {
                    Some((reason, props)) => {
                        if reason != want_reason {
                            flag(&mut viol, "disconnect-field", "reason", format!("DISCONNECT carries reason 0x{:02x}, requested {:?}", reason, c.reason));
                        }
                        if !mr::props_equiv(&props, &props_ref) {
                            flag(&mut viol, "disconnect-field", "properties", format!("DISCONNECT carries {:?}, requested {:?}", props, props_ref));
                        }
                    }
                    None => flag(&mut viol, "undecodable", "disconnect", format!("disconnect returned Ok but wrote {}", mr::hex(&written))),
                }
            }
            Err(e) => {
                if !written.is_empty() {
                    flag(&mut viol, "error-but-sent", &format!("disconnect-{:?}", e), format!("disconnect failed with {:?} but wrote {}", e, mr::hex(&written)));
                }
                if !matches!(e, Res::BufferTooSmall) {
                    flag(&mut viol, "unexpected-error", &format!("disconnect-{:?}", e), format!("{:?} for {:?}", e, c));
                } else {
                    // "too little buffer" is an answer only when the configured transmit buffer really is too
                    // small for the packet asked for (5 bytes of fixed-header reserve included)
                    let mut body = vec![want_reason];
                    mr::put_props(&mut body, &props_ref);
                    let need = 5 + body.len();
                    if need <= 64 {
                        flag(
                            &mut viol,
                            "request-refused-although-it-fits",
                            "disconnect",
                            format!("disconnect with {:?} needs at most {} bytes, the transmit buffer has 64, yet it fails with BufferTooSmall", props_ref, need),
                        );
                    }
                }
            }
        }
        CaseOut { class: hash_of(&(r.is_ok(), written.len())), viol }
    })
}

/// DISCONNECT body without the reason-code whitelist.
fn decode_disconnect(b: &[u8]) -> Option<(u8, Vec<Prop>)> {
    let fh = mr::fixed_header(b).ok()?;
    if fh.first != 0xE0 || fh.total() != b.len() {
        return None;
    }
    let mut r = mr::Rd::new(&b[fh.header_len..]);
    if r.left() == 0 {
        return Some((0, vec![]));
    }
    let reason = r.u8().ok()?;
    let props = if r.left() == 0 { vec![] } else { mr::read_props(&mut r, mr::Ctx::Disconnect).ok()? };
    if r.left() != 0 {
        return None;
    }
    Some((reason, props))
}

#[derive(Clone, Debug, Serialize, Deserialize)]
pub struct AckCase {
    pub qos: u8,
    pub pid: u16,
    /// 0: PUBLISH only; 1: PUBLISH then PUBREL (qos 2); 2: PUBREL for an unknown identifier
    pub mode: u8,
}

pub fn eval_ack(c: &AckCase) -> CaseOut {
    guarded("C09", || {
        let spec = Spec::plain(64, 64);
        let mut viol = Vec::new();
        let out = with_session(&spec, |bench, s| {
            let Conn::Ok(mut conn, id) = connect(bench, s, &connack(false, vec![])) else { return None };
            let before = bench.written(id).len();
            let hi = (c.pid >> 8) as u8;
            let lo = c.pid as u8;
            if c.mode != 2 {
                bench.push(id, &[0x30 | c.qos << 1, 0x07, 0x00, 0x01, b'a', hi, lo, 0x00, 0x55]);
                let _ = bench.run(conn.poll(), id);
            }
            if c.mode >= 1 {
                bench.push(id, &[0x62, 0x02, hi, lo]);
                let _ = bench.run(conn.poll(), id);
            }
            for _ in 0..4 {
                let _ = bench.run(conn.poll(), id);
            }
            Some(bench.written(id)[before..].to_vec())
        });
        let Built::Ran(out) = out else { panic!("machinery: config refused") };
        let Some(written) = out else { return CaseOut { class: 99, viol } };
        let mut want: Vec<(AckKind, u16, u8)> = Vec::new();
        if c.mode != 2 {
            want.push((if c.qos == 1 { AckKind::PubAck } else { AckKind::PubRec }, c.pid, 0));
        }
        if c.mode == 1 {
            want.push((AckKind::PubComp, c.pid, 0));
        }
        if c.mode == 2 {
            want.push((AckKind::PubComp, c.pid, 0x92));
        }
        let mut got = Vec::new();
        let mut off = 0;
        while off < written.len() {
            match mr::decode_client(&written[off..]) {
                Ok((CPacket::Ack(a), n)) => {
                    got.push((a.kind, a.pid, a.reason));
                    off += n;
                }
                other => {
                    flag(&mut viol, "ack-undecodable", "ack", format!("{} -> {:?}", mr::hex(&written), other.map(|x| x.0.name())));
                    break;
                }
            }
        }
        if got != want {
            flag(&mut viol, "ack-field", &format!("mode{}", c.mode), format!("acknowledgements on the wire {:?}, owed {:?}", got, want));
        }
        CaseOut { class: hash_of(&(c.qos, c.mode, got.len())), viol }
    })
}

// ---------------------------------------------------------------------------------------------

pub fn run(tier: Tier, caps: &Caps) -> Vec<FamilyReport> {
    let mut out = Vec::new();
    let cc = connect_cases(tier);
    out.push(sweep(
        "C09-connect",
        "C09",
        cc.len() as u64,
        caps,
        json!({"cases": cc.len(), "dimensions": "keep-alive (quick: 0..300 + every 251st + top 535; thorough: all 65536) ; will {none, plain, 6 properties, empty payload} x will QoS x will retain x auth {none, short, empty password, long} x client id length {0,1,23,64} x session expiry {0,1,max} x {first, first+resumed connect}; rx sizes across varint boundaries; tx 0..=140 for a small and a large CONNECT"}),
        &|i| eval_connect(&cc[i as usize]),
        &|i| serde_json::to_value(&cc[i as usize]).unwrap(),
    ));
    let pc = pub_cases(tier);
    out.push(sweep(
        "C09-publish",
        "C09",
        pc.len() as u64,
        caps,
        json!({"cases": pc.len(), "dimensions": "QoS x retain x 150 property sets (each kind alone with boundary values, all subsets of 7 kinds, repeated user properties, >127-byte block) x correlate {no, empty, 5 bytes} before / after properties(); every order of chaining qos / properties / correlate / retain; payload handed over as bytes / closure / text x ASCII / multi-byte topics; payload lengths putting the remaining length on both sides of the 1/2, 2/3 and 3/4 byte boundaries; property-block lengths 100..140, 16360..16390, 65533..65535; topic and correlation-data lengths 65534..70000; payloads 0..tx+12 in transmit buffers of 24, 40, 64, 100 bytes; tx 30..=70 around the fit; a 2- / 3- / 4-byte character at every offset 0..=72 of topic, Content Type, Response Topic, User Property key and value"}),
        &|i| eval_pub(&pc[i as usize]),
        &|i| serde_json::to_value(&pc[i as usize]).unwrap(),
    ));
    let sc = sub_cases(tier);
    out.push(sweep(
        "C09-subscribe-unsubscribe",
        "C09",
        sc.len() as u64,
        caps,
        json!({"cases": sc.len(), "dimensions": "all 36 option combinations (max QoS x no-local x retain-as-published x retain handling) for one filter x 11 property sets (subscription identifier at all varint width boundaries); all 36x36 pairs for two filters; 0-3 filters; filter lengths 0,1,127,128,65535,65536; 4..2000 filters in one request; the same filter twice; every order of chaining the four SubscriptionOptions calls (with and without calls that restate a default); a 2- / 3- / 4-byte character at every offset 0..=72 of a filter; tx 30..=60"}),
        &|i| eval_sub(&sc[i as usize]),
        &|i| serde_json::to_value(&sc[i as usize]).unwrap(),
    ));
    let mut dc = Vec::new();
    for reason in std::iter::once(None).chain((0..=255u8).map(Some)) {
        for props in 0..=disc_prop_sets().len() {
            dc.push(DiscCase { reason, props, named: None });
        }
    }
    for i in 0..named_reasons().len() {
        for props in [0usize, 1, 3] {
            dc.push(DiscCase { reason: None, props, named: Some(i) });
        }
    }
    out.push(sweep(
        "C09-disconnect",
        "C09",
        dc.len() as u64,
        caps,
        json!({"cases": dc.len(), "dimensions": "Disconnect::success() and with_reason(every byte value) x {no property call, empty list, 8 property sets}; with_reason(each named variant of the enum) against the value MQTT 5 gives that name"}),
        &|i| eval_disc(&dc[i as usize]),
        &|i| serde_json::to_value(&dc[i as usize]).unwrap(),
    ));
    let mut ac = Vec::new();
    let step = if tier == Tier::Quick { 257 } else { 1 };
    let mut pid = 1u32;
    while pid <= 65535 {
        for (qos, mode) in [(1u8, 0u8), (2, 0), (2, 1), (2, 2)] {
            ac.push(AckCase { qos, pid: pid as u16, mode });
        }
        pid += step;
    }
    for pid in [1u16, 2, 255, 256, 257, 32767, 32768, 65534, 65535] {
        for (qos, mode) in [(1u8, 0u8), (2, 0), (2, 1), (2, 2)] {
            ac.push(AckCase { qos, pid, mode });
        }
    }
    out.push(sweep(
        "C09-acknowledgements",
        "C09",
        ac.len() as u64,
        caps,
        json!({"cases": ac.len(), "dimensions": "PUBACK / PUBREC / PUBCOMP(success) / PUBCOMP(not found) for packet identifiers (quick: every 257th + boundaries; thorough: all 65535)"}),
        &|i| eval_ack(&ac[i as usize]),
        &|i| serde_json::to_value(&ac[i as usize]).unwrap(),
    ));
    out
}

/// C01: outbound PUBLISH packets whose remaining length lies on either side of every variable-byte boundary
/// (1/2, 2/3 and 3/4 bytes), at every QoS, strictly decoded: whole packets with exact remaining length.
fn c01_cases(tier: Tier) -> Vec<PubCase> {
    pub_cases(tier).into_iter().filter(|c| c.payload_len >= 120 && c.tx == c.payload_len + 64).collect()
}

fn relabel_c01(mut o: CaseOut) -> CaseOut {
    for v in o.viol.iter_mut() {
        if let Some(rest) = v.0.strip_prefix("C09:") {
            v.0 = format!("C01:{}", rest);
        }
    }
    o
}

pub fn run_c01(tier: Tier, caps: &Caps) -> Vec<FamilyReport> {
    let pc = c01_cases(tier);
    vec![sweep(
        "C01-remaining-lengths-across-every-variable-byte-boundary",
        "C01",
        pc.len() as u64,
        caps,
        json!({"cases": pc.len(), "dimensions": "QoS 0 / 1 / 2 PUBLISH with payload lengths putting the remaining length on both sides of the 1/2, 2/3 and 3/4 byte boundaries (up to 2 097 153 bytes of payload in a transmit buffer 64 bytes larger), decoded strictly by the reference decoder"}),
        &|i| relabel_c01(eval_pub(&pc[i as usize])),
        &|i| serde_json::to_value(&pc[i as usize]).unwrap(),
    )]
}

pub fn replay(name: &str, case: &Value) -> Option<CaseOut> {
    if name.starts_with("C01-remaining-lengths") {
        return Some(relabel_c01(eval_pub(&serde_json::from_value(case.clone()).ok()?)));
    }
    Some(match name {
        "C09-connect" => eval_connect(&serde_json::from_value(case.clone()).ok()?),
        "C09-publish" => eval_pub(&serde_json::from_value(case.clone()).ok()?),
        "C09-subscribe-unsubscribe" => eval_sub(&serde_json::from_value(case.clone()).ok()?),
        "C09-disconnect" => eval_disc(&serde_json::from_value(case.clone()).ok()?),
        "C09-acknowledgements" => eval_ack(&serde_json::from_value(case.clone()).ok()?),
        _ => return None,
    })
}
