//! C20: reply helpers address exactly the requester.
use crate::direct::{guarded, hash_of, sweep, CaseOut};
use crate::direct2::*;
use crate::explore::Caps;
use crate::families::Tier;
use crate::mqtt_ref::{self as mr, CPacket, PVal, Prop, SPacket};
use crate::report::FamilyReport;
use crate::world::Res;
use minimq::{Property, Publication, QoS};
use serde::{Deserialize, Serialize};
use serde_json::{json, Value};

fn flag(viol: &mut Vec<(String, String)>, rule: &str, ctx: &str, detail: String) {
    viol.push((format!("C20:{}:{}", rule, ctx), detail));
}

#[derive(Clone, Debug, Serialize, Deserialize)]
pub struct Case {
    /// None = no response topic in the request
    pub topic_len: Option<usize>,
    pub corr_len: Option<usize>,
    /// 0 first, 1 last, 2 between user properties, 3 correlation data before the response topic
    pub position: u8,
    pub in_qos: u8,
    /// user properties attached to the reply after reply()/publication()
    pub add_user_props: u8,
    /// None = borrowed reply(); Some(k) = reply_owned with capacity pair k
    pub owned: Option<usize>,
    /// 0 = letters, '/' and a few multi-byte characters; 1 = every printable ASCII character in turn (incl. '+', '#',
    /// '$', space) - a response topic is whatever the requester chose
    #[serde(default)]
    pub topic_kind: u8,
    /// the request is delivered on the very topic it names as its response topic (a shared request / response topic)
    #[serde(default)]
    pub same_topic: bool,
    /// fixed-header flags of the request: bit 0 = RETAIN (a retained request picked up on subscribing), bit 1 = DUP
    /// (only with QoS > 0)
    #[serde(default)]
    pub in_flags: u8,
    /// another string-valued property in front of everything else, carrying something that looks like a topic:
    /// 1 Content Type (legal on a PUBLISH); 2 Response Information, 3 Server Reference, 4 Reason String,
    /// 5 Assigned Client Identifier, 6 Authentication Method (none of them legal on a PUBLISH: a client may refuse
    /// the request - but it must not mistake them for the response topic)
    #[serde(default)]
    pub decoy: u8,
}

const CAPS: [(usize, usize); 7] = [(1, 1), (2, 1), (8, 4), (127, 8), (128, 128), (300, 0), (65535, 65535)];

fn topic_of_kind(n: usize, kind: u8) -> String {
    if kind == 0 {
        return topic_of(n);
    }
    if kind >= 2 {
        // characters at the ends that a careless decoder might trim: U+FEFF, spaces, slashes
        let (head, tail) = match kind {
            2 => ("\u{feff}", ""),
            3 => (" ", " "),
            4 => ("/", "/"),
            _ => ("", "\u{feff}"),
        };
        if n < head.len() + tail.len() + 1 {
            return topic_of(n);
        }
        let mut s = String::from(head);
        while s.len() < n - tail.len() {
            s.push((b'a' + (s.len() % 26) as u8) as char);
        }
        s.push_str(tail);
        return s;
    }
    // '+', '#', '$' and the space come early so that short topics have them too
    let lead = "+#$ r/";
    let mut s = String::new();
    let mut i = 0usize;
    while s.len() < n {
        let c = if i < lead.len() { lead.as_bytes()[i] as char } else { (0x21 + ((i - lead.len()) % 94) as u8) as char };
        s.push(c);
        i += 1;
    }
    s
}

fn topic_of(n: usize) -> String {
    // mixes one-, two- and three-byte characters at the front when there is room
    let mut s = String::new();
    if n >= 6 {
        s.push_str("r\u{e9}\u{20ac}");
    }
    while s.len() < n {
        s.push(if s.len() % 5 == 4 { '/' } else { 'q' });
    }
    s
}

fn corr_of(n: usize) -> Vec<u8> {
    (0..n).map(|i| ((i * 7 + 3) % 256) as u8).collect()
}

enum Owned {
    None,
    Some(String, Option<Vec<u8>>, Vec<u8>),
    Err(String),
}

macro_rules! owned_reply {
    ($bench:expr, $conn:expr, $id:expr, $t:expr, $c:expr, $users:expr, $call:expr) => {{
        // first step: copy the target out of the borrowed message
        let target = {
            let m = match $bench.run($conn.poll(), $id) {
                Some(Ok(Some(m))) => m,
                _ => return Some(Owned::Err("request-not-delivered".into())),
            };
            m.reply_owned::<$t, $c>()
        };
        match target {
            Ok(None) => Owned::None,
            Err(e) => Owned::Err(format!("{:?}", e)),
            Ok(Some(target)) => {
                // flush the acknowledgement of the request first so that only the reply follows
                let _ = $bench.run($conn.drive(), $id);
                let before = $bench.written($id).len();
                let topic = target.topic().to_string();
                let corr = target.correlation_data().map(|c| c.to_vec());
                let mut publication = target.publication(&b"pong"[..]);
                if $call {
                    publication = publication.properties($users);
                }
                let r = $bench.run($conn.publish(publication), $id);
                if !matches!(r, Some(Ok(_))) {
                    Owned::Err(format!("publish failed: {:?}", r.map(|r| r.map(|_| ()).map_err(|e| Res::from_pub(&e)))))
                } else {
                    Owned::Some(topic, corr, $bench.written($id)[before..].to_vec())
                }
            }
        }
    }};
}

pub const SUB_IDS: [u32; 8] = [1, 127, 128, 16383, 16384, 2097151, 2097152, 268435455];
pub const N_LEGAL_FRONT: u8 = 16;
fn legal_front(decoy: u8) -> Vec<Prop> {
    if decoy < 7 {
        return vec![];
    }
    let sub = |v: u32| Prop { id: 0x0B, val: PVal::Var(v) };
    match decoy - 7 {
        k @ 0..=7 => vec![sub(SUB_IDS[k as usize])],
        8 => vec![sub(16384), sub(5)],
        9 => vec![Prop { id: 0x01, val: PVal::Byte(0) }],
        10 => vec![Prop { id: 0x01, val: PVal::Byte(1) }],
        11 => vec![Prop { id: 0x02, val: PVal::U32(0) }],
        12 => vec![Prop { id: 0x02, val: PVal::U32(u32::MAX) }],
        13 => vec![Prop { id: 0x03, val: PVal::Str(vec![]) }],
        14 => vec![Prop { id: 0x26, val: PVal::Pair(vec![], vec![]) }],
        _ => vec![Prop { id: 0x02, val: PVal::U32(0x0908_0908) }, sub(0x0009_0808), Prop { id: 0x01, val: PVal::Byte(1) }, Prop { id: 0x03, val: PVal::Str(vec![9, 0, 1, 8]) }],
    }
}

pub fn eval(c: &Case) -> CaseOut {
    guarded("C20", || {
        let mut viol = Vec::new();
        let topic = c.topic_len.map(|n| topic_of_kind(n, c.topic_kind));
        let corr = c.corr_len.map(corr_of);
        let up = |k: &str| Prop { id: 0x26, val: PVal::Pair(k.as_bytes().to_vec(), b"v".to_vec()) };
        let rt = topic.as_ref().map(|t| Prop { id: 0x08, val: PVal::Str(t.as_bytes().to_vec()) });
        let cd = corr.as_ref().map(|d| Prop { id: 0x09, val: PVal::Bin(d.clone()) });
        let mut props: Vec<Prop> = Vec::new();
        match c.position {
            0 => {
                props.extend(rt.clone());
                props.extend(cd.clone());
                props.push(up("a"));
            }
            1 => {
                props.push(up("a"));
                props.push(Prop { id: 0x03, val: PVal::Str(b"ct".to_vec()) });
                props.extend(cd.clone());
                props.extend(rt.clone());
            }
            2 => {
                props.push(up("a"));
                props.extend(rt.clone());
                props.push(up("b"));
                props.extend(cd.clone());
                props.push(up("c"));
            }
            _ => {
                props.extend(cd.clone());
                props.extend(rt.clone());
            }
        }
        const DECOYS: [u8; 7] = [0, 0x03, 0x1A, 0x1C, 0x1F, 0x12, 0x15];
        if c.decoy != 0 && c.decoy < 7 {
            props.insert(0, Prop { id: DECOYS[c.decoy as usize % 7], val: PVal::Str(b"decoy/topic".to_vec()) });
        }
        // properties of every other value type that MQTT 5 allows on a PUBLISH, at their boundary values, in front
        for p in legal_front(c.decoy).into_iter().rev() {
            props.insert(0, p);
        }
        // (Content Type may appear once: the one of position 1 gives way to one put in front)
        if props.iter().filter(|p| p.id == 0x03).count() > 1 {
            let last = props.iter().rposition(|p| p.id == 0x03).unwrap();
            props.remove(last);
        }
        let request = SPacket::Publish {
            dup: c.in_flags & 2 != 0 && c.in_qos > 0,
            qos: c.in_qos,
            retain: c.in_flags & 1 != 0,
            topic: match (&topic, c.same_topic) {
                (Some(t), true) => t.as_bytes().to_vec(),
                _ => b"req".to_vec(),
            },
            pid: if c.in_qos > 0 { Some(9) } else { None },
            props,
            payload: b"ping".to_vec(),
        }
        .encode();
        // (inbound QoS 1 requests arrive in a receive buffer they fill to the last byte)
        let rx = if c.in_qos == 1 { request.len().max(16) } else { request.len() + 16 };
        let tx = c.topic_len.unwrap_or(0) + c.corr_len.unwrap_or(0) + 128;
        // add_user_props 3: `.properties(&[])` is called with an empty list (what forwarding an optional list produces)
        let call_props = c.add_user_props > 0;
        let user_ref: Vec<Prop> = (0..(c.add_user_props % 3)).map(|i| up(&format!("u{}", i))).collect();
        let users: Vec<Property<'_>> = props_of(&user_ref);
        let spec = Spec::plain(rx, tx);
        // the requester-side session
        let out = with_session(&spec, |bench, s| {
            let Conn::Ok(mut conn, id) = connect(bench, s, &connack(false, vec![])) else { return None };
            bench.push(id, &request);
            Some(match c.owned {
                None => {
                    // borrowed reply: the publication borrows the inbound message, so it is sent through a
                    // second session (the only way the borrow checker allows)
                    let m = match bench.run(conn.poll(), id) {
                        Some(Ok(Some(m))) => m,
                        _ => return Some(Owned::Err("request-not-delivered".into())),
                    };
                    match m.reply(&b"pong"[..]) {
                        None => Owned::None,
                        Some(mut publication) => {
                            if call_props {
                                publication = publication.properties(&users);
                            }
                            let spec_b = Spec::plain(64, tx);
                            let sent = with_session(&spec_b, |bench_b, sb| {
                                let Conn::Ok(mut cb, idb) = connect(bench_b, sb, &connack(false, vec![])) else { return None };
                                let before = bench_b.written(idb).len();
                                let r = bench_b.run(cb.publish(publication.qos(QoS::AtMostOnce)), idb);
                                if !matches!(r, Some(Ok(_))) {
                                    return None;
                                }
                                Some(bench_b.written(idb)[before..].to_vec())
                            });
                            match sent {
                                Built::Ran(Some(w)) => Owned::Some(m.response_topic().unwrap_or("").to_string(), m.correlation_data().map(|d| d.to_vec()), w),
                                _ => Owned::Err("publishing the borrowed reply failed".into()),
                            }
                        }
                    }
                }
                Some(0) => owned_reply!(bench, conn, id, 1, 1, &users, call_props),
                Some(1) => owned_reply!(bench, conn, id, 2, 1, &users, call_props),
                Some(2) => owned_reply!(bench, conn, id, 8, 4, &users, call_props),
                Some(3) => owned_reply!(bench, conn, id, 127, 8, &users, call_props),
                Some(4) => owned_reply!(bench, conn, id, 128, 128, &users, call_props),
                Some(5) => owned_reply!(bench, conn, id, 300, 0, &users, call_props),
                Some(_) => owned_reply!(bench, conn, id, 65535, 65535, &users, call_props),
            })
        });
        let Built::Ran(Some(result)) = out else { panic!("machinery: setup failed") };
        let kind = if c.owned.is_some() { "owned" } else { "borrowed" };
        let fits = match c.owned {
            None => true,
            Some(k) => {
                let (tc, cc) = CAPS[k.min(CAPS.len() - 1)];
                c.topic_len.unwrap_or(0) <= tc && c.corr_len.unwrap_or(0) <= cc
            }
        };
        let class;
        match (&topic, result) {
            (_, Owned::Err(e)) if e == "request-not-delivered" && c.decoy >= 2 && c.decoy < 7 => {
                // the request carries a property MQTT 5 does not allow on a PUBLISH: refusing it is the client's right
                class = 9;
            }
            (Some(t), Owned::Err(e)) if e == "request-not-delivered" && c.topic_kind == 1 && t.contains(['+', '#']) => {
                // MQTT-3.3.2-14 forbids wildcard characters in a Response Topic: a client that refuses the whole
                // request as malformed is within its rights (C08 decides what is accepted); nothing to reply to
                class = 8;
            }
            (_, Owned::Err(e)) if e == "request-not-delivered" => {
                class = 7;
                flag(&mut viol, "request-not-delivered", kind, format!("the valid inbound request was not delivered to the application ({:?})", c));
            }
            (None, Owned::None) => class = 1,
            (None, Owned::Some(t, _, _)) => {
                class = 2;
                flag(&mut viol, "reply-without-response-topic", kind, format!("the request has no response topic but a reply to {:?} was offered", t));
            }
            (None, Owned::Err(e)) => {
                class = 3;
                flag(&mut viol, "error-without-response-topic", kind, format!("the request has no response topic but the helper failed with {}", e));
            }
            (Some(_), Owned::None) => {
                class = 4;
                flag(&mut viol, "no-reply-offered", kind, format!("the request carries a response topic of {} bytes but no reply was offered ({:?})", c.topic_len.unwrap(), c));
            }
            (Some(_), Owned::Err(e)) => {
                class = 5;
                if fits {
                    flag(&mut viol, "fitting-target-refused", kind, format!("target fits the requested capacity but the helper failed: {} ({:?})", e, c));
                } else if e != "BufferTooSmall" {
                    flag(&mut viol, "wrong-error", kind, format!("capacity too small reported as {}", e));
                }
            }
            (Some(want_topic), Owned::Some(t, cdata, written)) => {
                class = 6;
                if !fits {
                    flag(&mut viol, "truncated-instead-of-error", kind, format!("target does not fit capacity {:?} but a reply to a {}-byte topic with {:?} correlation bytes was produced", c.owned.map(|k| CAPS[k.min(CAPS.len() - 1)]), t.len(), cdata.as_ref().map(|d| d.len())));
                }
                if &t != want_topic || cdata != corr {
                    flag(&mut viol, "target-differs", kind, format!("helper reports topic {} bytes / correlation {:?} bytes, request had {} / {:?}", t.len(), cdata.as_ref().map(|d| d.len()), want_topic.len(), corr.as_ref().map(|d| d.len())));
                }
                // MQTT forbids wildcard characters in topic names and so does the reference decoder; where the requester
                // chose such a response topic the reply must go there all the same (the property is about addressing):
                // the topic is read by hand and the wildcard characters are masked for the decoder
                let mut raw_topic: Option<Vec<u8>> = None;
                let mut written = written;
                if c.topic_kind == 1 && written.len() > 4 && written[0] >> 4 == 3 {
                    let mut off = 1;
                    while off < 5 && written[off] & 0x80 != 0 {
                        off += 1;
                    }
                    off += 1;
                    if off + 2 <= written.len() {
                        let tl = ((written[off] as usize) << 8) | written[off + 1] as usize;
                        if off + 2 + tl <= written.len() {
                            raw_topic = Some(written[off + 2..off + 2 + tl].to_vec());
                            for b in &mut written[off + 2..off + 2 + tl] {
                                if *b == b'+' || *b == b'#' {
                                    *b = b'w';
                                }
                            }
                        }
                    }
                }
                let masked = |t: &[u8]| -> Vec<u8> { t.iter().map(|b| if c.topic_kind == 1 && (*b == b'+' || *b == b'#') { b'w' } else { *b }).collect() };
                if let Some(rt) = &raw_topic {
                    if rt != want_topic.as_bytes() {
                        flag(&mut viol, "reply-topic-differs", kind, format!("reply goes to {:?}, response topic is {:?}", String::from_utf8_lossy(rt), want_topic));
                    }
                }
                match mr::decode_client(&written) {
                    Ok((CPacket::Publish(pp), n)) if n == written.len() => {
                        if pp.topic != masked(want_topic.as_bytes()) {
                            flag(&mut viol, "reply-topic-differs", kind, format!("reply goes to a {}-byte topic, response topic has {} bytes", pp.topic.len(), want_topic.len()));
                        }
                        let got_cd: Vec<&Prop> = pp.props.iter().filter(|p| p.id == 0x09).collect();
                        let want_cd: Vec<Prop> = cd.iter().cloned().collect();
                        if got_cd.len() != want_cd.len() || got_cd.iter().zip(want_cd.iter()).any(|(a, b)| *a != b) {
                            flag(&mut viol, "reply-correlation-differs", kind, format!("reply carries correlation data {:?}, request {:?}", got_cd.iter().map(|p| format!("{:?}", p).len()).collect::<Vec<_>>(), corr.as_ref().map(|d| d.len())));
                        }
                        let got_users: Vec<Prop> = pp.props.iter().filter(|p| p.id == 0x26).cloned().collect();
                        if got_users != user_ref {
                            flag(&mut viol, "reply-user-properties-differ", kind, format!("reply carries user properties {:?}, added {:?}", got_users, user_ref));
                        }
                        if pp.props.iter().any(|p| p.id != 0x09 && p.id != 0x26) {
                            flag(&mut viol, "reply-extra-properties", kind, format!("reply carries {:?}", pp.props));
                        }
                        if pp.payload != b"pong" {
                            flag(&mut viol, "reply-payload-differs", kind, mr::hex(&pp.payload));
                        }
                    }
                    other => flag(&mut viol, "reply-undecodable", kind, format!("{:?}", other.map(|x| x.0.name()))),
                }
            }
        }
        CaseOut { class: hash_of(&(class, c.owned.is_some(), fits, c.corr_len.is_some())), viol }
    })
}

fn cases(tier: Tier) -> Vec<Case> {
    let mut v = Vec::new();
    let topics: Vec<Option<usize>> = vec![None, Some(1), Some(2), Some(127), Some(128), Some(65535)];
    let corrs: Vec<Option<usize>> = vec![None, Some(0), Some(1), Some(128), Some(256), Some(65535)];
    for t in &topics {
        for cl in &corrs {
            for position in 0..4u8 {
                for add_user_props in [0u8, 2, 3] {
                    for in_qos in [0u8, 1] {
                        if tier == Tier::Quick && in_qos == 1 && (t.unwrap_or(0) > 200 || cl.unwrap_or(0) > 200) {
                            continue;
                        }
                        v.push(Case { topic_len: *t, corr_len: *cl, position, in_qos, add_user_props, owned: None, topic_kind: 0, same_topic: false, in_flags: 0, decoy: 0 });
                    }
                }
            }
        }
    }
    if tier == Tier::Thorough {
        // every response-topic length 1..=300 and around the 2-byte varint boundary of the property block, every
        // correlation length 0..=300, borrowed and through a roomy owned target
        let tls: Vec<usize> = (1..=300).chain([16370, 16383, 16384, 16385, 32768, 65534]).collect();
        for &t in &tls {
            for cl in [None, Some(0usize), Some(3), Some(255)] {
                for position in 0..4u8 {
                    for owned in [None, Some(6usize)] {
                        v.push(Case { topic_len: Some(t), corr_len: cl, position, in_qos: (t % 2) as u8, add_user_props: (t % 3) as u8, owned, topic_kind: 0, same_topic: false, in_flags: 0, decoy: 0 });
                    }
                }
            }
        }
        let cls: Vec<usize> = (0..=300).chain([16370, 16383, 16384, 16385, 32768, 65534]).collect();
        for &cl in &cls {
            for t in [None, Some(1usize), Some(9), Some(130)] {
                for position in 0..4u8 {
                    for owned in [None, Some(6usize)] {
                        v.push(Case { topic_len: t, corr_len: Some(cl), position, in_qos: (cl % 2) as u8, add_user_props: (cl % 3) as u8, owned, topic_kind: 0, same_topic: false, in_flags: 0, decoy: 0 });
                    }
                }
            }
        }
    }
    // the response topic equals the topic the request arrived on; or is a prefix / an extension of it
    for t in [1usize, 3, 20, 130] {
        for cl in [None, Some(0usize), Some(4)] {
            for position in 0..4u8 {
                for owned in [None, Some(4usize), Some(6)] {
                    v.push(Case { topic_len: Some(t), corr_len: cl, position, in_qos: (t % 2) as u8, add_user_props: (t % 3) as u8, owned, topic_kind: 0, same_topic: true, in_flags: 0, decoy: 0 });
                }
            }
        }
    }
    // another string property that looks like a topic, with and without a real response topic
    for decoy in 1..7u8 {
        for t in [None, Some(1usize), Some(20)] {
            for cl in [None, Some(4usize)] {
                for position in 0..4u8 {
                    for owned in [None, Some(4usize), Some(6)] {
                        v.push(Case { topic_len: t, corr_len: cl, position, in_qos: 1, add_user_props: 1, owned, topic_kind: 0, same_topic: false, in_flags: 0, decoy });
                    }
                }
            }
        }
    }
    // every other legal PUBLISH property type, at its boundary values, in front of the two that matter
    for decoy in 7..7 + N_LEGAL_FRONT {
        for t in [Some(1usize), Some(20)] {
            for cl in [None, Some(0usize), Some(4)] {
                for position in 0..4u8 {
                    for owned in [None, Some(4usize)] {
                        v.push(Case { topic_len: t, corr_len: cl, position, in_qos: (decoy % 3).min(1), add_user_props: decoy % 2, owned, topic_kind: 0, same_topic: false, in_flags: 0, decoy });
                    }
                }
            }
        }
    }
    // requests with RETAIN and / or DUP set
    for in_flags in 1..4u8 {
        for t in [None, Some(1usize), Some(20)] {
            for cl in [None, Some(0usize), Some(4)] {
                for position in [0u8, 2] {
                    for owned in [None, Some(0usize), Some(4), Some(6)] {
                        for in_qos in 0..3u8 {
                            v.push(Case { topic_len: t, corr_len: cl, position, in_qos, add_user_props: 1, owned, topic_kind: 0, same_topic: false, in_flags, decoy: 0 });
                        }
                    }
                }
            }
        }
    }
    // response topics made of every printable ASCII character (wildcard characters, '$', space ...)
    for t in [1usize, 2, 3, 6, 20, 100, 128] {
        for cl in [None, Some(0usize), Some(5)] {
            for position in 0..4u8 {
                for owned in [None, Some(4usize), Some(6)] {
                    v.push(Case { topic_len: Some(t), corr_len: cl, position, in_qos: (t % 2) as u8, add_user_props: (t % 3) as u8, owned, topic_kind: 1, same_topic: false, in_flags: 0, decoy: 0 });
                }
            }
        }
    }
    // response topics with U+FEFF, spaces or slashes at their ends
    for topic_kind in 2..6u8 {
        for t in [3usize, 4, 14, 20, 128, 130] {
            for cl in [None, Some(5usize)] {
                for position in 0..4u8 {
                    for owned in [None, Some(4usize), Some(6)] {
                        v.push(Case { topic_len: Some(t), corr_len: cl, position, in_qos: (t % 2) as u8, add_user_props: (t % 3) as u8, owned, topic_kind, same_topic: false, in_flags: 0, decoy: 0 });
                    }
                }
            }
        }
    }
    for (k, (tc, cc)) in CAPS.iter().enumerate() {
        let mut tl: Vec<Option<usize>> = vec![None, Some(tc.saturating_sub(1).max(1)), Some(*tc)];
        if *tc < 65535 {
            tl.push(Some(tc + 1));
        }
        let mut cls: Vec<Option<usize>> = vec![None, Some(cc.saturating_sub(1)), Some(*cc)];
        if *cc < 65535 {
            cls.push(Some(cc + 1));
        }
        for t in &tl {
            for cl in &cls {
                for add_user_props in [0u8, 1, 3] {
                    for position in [0u8, 2] {
                        v.push(Case { topic_len: *t, corr_len: *cl, position, in_qos: 1, add_user_props, owned: Some(k), topic_kind: 0, same_topic: false, in_flags: 0, decoy: 0 });
                    }
                }
            }
        }
    }
    v
}

pub fn run(tier: Tier, caps: &Caps) -> Vec<FamilyReport> {
    let cs = cases(tier);
    vec![sweep(
        "C20-reply-and-owned-response-target",
        "C20",
        cs.len() as u64,
        caps,
        json!({"cases": cs.len(), "dimensions": "response topic {absent, 1, 2, 127, 128, 65535 bytes, multi-byte characters} x correlation data {absent, 0, 1, 128, 256 (all byte values), 65535 bytes} x position among other properties {first, last, between user properties, correlation first} x user properties added to the reply {0, 2} x inbound QoS; borrowed reply() published through a second real session; reply_owned::<T,C>() for 7 capacity pairs with topic and correlation lengths T-1, T, T+1 / C-1, C, C+1, published through the same session; reply decoded by the reference decoder", "thorough_adds": if tier == Tier::Thorough { "every response-topic length 1..=300 and 16370/16383/16384/16385/32768/65534 x correlation {absent,0,3,255}; every correlation length 0..=300 and the same large values x topic {absent,1,9,130}; each x 4 positions x borrowed / owned<65535,65535>" } else { "-" }}),
        &|i| eval(&cs[i as usize]),
        &|i| serde_json::to_value(&cs[i as usize]).unwrap(),
    )]
}

pub fn replay(_name: &str, case: &Value) -> Option<CaseOut> {
    Some(eval(&serde_json::from_value(case.clone()).ok()?))
}
