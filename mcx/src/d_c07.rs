//! C07: validation of the packet-identifier setter hook against hook-free histories.
//!
//! The schedule families start next to the 16-bit wrap (or "age" the counter) with
//! `verif_set_next_packet_id`. Here the same counter values are reached without the hook, through
//! tens of thousands of locally refused publishes (each consumes an identifier), and the complete
//! session fingerprints are compared. The long histories are also checked directly: every
//! identifier that appears on the wire must differ from those still in flight.
use crate::direct::{guarded, hash_of, sweep, CaseOut};
use crate::direct2::*;
use crate::explore::Caps;
use crate::families::Tier;
use crate::mqtt_ref::{self as mr, CPacket, PVal, Prop};
use crate::report::FamilyReport;
use crate::world::{Fp, Res};
use minimq::{Publication, QoS, TopicFilter};
use serde::{Deserialize, Serialize};
use serde_json::{json, Value};
use std::hash::Hasher;

#[derive(Clone, Debug, Serialize, Deserialize)]
pub struct Case {
    /// requests left in flight before the counter is aged: 1 = QoS 1 publish, 2 = QoS 2 publish
    /// (PUBREC consumed), 3 = subscribe, 4 = unsubscribe
    pub inflight: Vec<u8>,
    /// number of locally refused publishes (each consumes one identifier)
    pub refused: u32,
    /// request made afterwards (same coding)
    pub then: u8,
    /// locally refused publishes made before anything else, so that the in-flight requests get
    /// identifiers next to the 16-bit wrap
    #[serde(default)]
    pub pre_age: u32,
}

fn fingerprint(s: &minimq::Session<'_>) -> u128 {
    let mut h = Fp::new();
    s.verif_fingerprint(&mut |b| h.write(b));
    h.finish128()
}

fn cases(tier: Tier) -> Vec<Case> {
    let mut v = Vec::new();
    let sets: Vec<Vec<u8>> = vec![vec![1], vec![2], vec![3], vec![4], vec![1, 2], vec![3, 1], vec![2, 4, 1]];
    for inflight in sets {
        let n = inflight.len() as u32;
        // land exactly on each live identifier, one before, one after, and far away
        let mut counts = vec![65535 - n - 1, 65535 - n, 65535 - n + 1, 65535, 65536, 2 * 65535 - n];
        if tier == Tier::Thorough {
            counts.extend([1, 2, 65535 - n + 2, 65535 + 1 + n, 3 * 65535]);
        }
        for refused in counts {
            for then in 1..=4u8 {
                for pre_age in [0u32, 65532, 65534] {
                    v.push(Case {
                        inflight: inflight.clone(),
                        refused,
                        then,
                        pre_age,
                    });
                }
            }
        }
    }
    v
}

fn request(
    bench: &crate::bench::Bench,
    conn: &mut minimq::Connection<'_, '_, crate::world::VirtualIo>,
    id: usize,
    kind: u8,
    tag: u8,
) -> Result<(), Res> {
    let payload = [tag, tag];
    let filter = format!("f/{}", tag);
    match kind {
        1 | 2 => {
            let q = if kind == 1 { QoS::AtLeastOnce } else { QoS::ExactlyOnce };
            match bench.run(conn.publish(Publication::bytes("t", &payload).qos(q)), id) {
                Some(Ok(_)) => Ok(()),
                Some(Err(e)) => Err(Res::from_pub(&e)),
                None => Err(Res::Cancelled),
            }
        }
        3 => match bench.run(conn.subscribe(&[TopicFilter::new(&filter)], &[]), id) {
            Some(Ok(_)) => Ok(()),
            Some(Err(e)) => Err(Res::from_err(&e)),
            None => Err(Res::Cancelled),
        },
        _ => match bench.run(conn.unsubscribe(&[&filter], &[]), id) {
            Some(Ok(_)) => Ok(()),
            Some(Err(e)) => Err(Res::from_err(&e)),
            None => Err(Res::Cancelled),
        },
    }
}

/// Run the history; with `hook_target` the refused publishes are replaced by one setter call that
/// moves the counter to where the hook-free history left it.
/// Returns (fingerprint after ageing, identifiers on the wire in order, result of the last request, counter).
fn history(c: &Case, hook_target: Option<u16>) -> (u128, Vec<(String, u16)>, Result<(), Res>, u16) {
    let spec = Spec::plain(64, 256);
    let big = vec![0x5Au8; 400]; // larger than the arena: refused after an identifier was taken
    let out = with_session(&spec, |bench, s| {
        let ca = connack(false, vec![]);
        let Conn::Ok(mut conn, id) = connect(bench, s, &ca) else {
            panic!("machinery: plain connect failed");
        };
        for _ in 0..c.pre_age {
            match bench.run(conn.publish(Publication::bytes("t", &big[..]).qos(QoS::AtLeastOnce)), id) {
                Some(Err(e)) if matches!(Res::from_pub(&e), Res::BufferTooSmall | Res::Payload | Res::NotReady) => {}
                _ => panic!("machinery: pre-ageing publish was not refused"),
            }
        }
        for (i, k) in c.inflight.iter().enumerate() {
            let before = conn.session().verif_runtime().next_packet_id;
            request(bench, &mut conn, id, *k, i as u8).expect("machinery: setup request failed");
            if *k == 2 {
                // consume the PUBREC so that the exchange sits in the release list
                bench.push(id, &[0x50, 0x02, (before >> 8) as u8, before as u8]);
                let _ = bench.run(conn.poll(), id);
            }
        }
        match hook_target {
            Some(t) => {
                // one real refused publish first, so that both runs have compacted the arena the same way
                let _ = bench.run(conn.publish(Publication::bytes("t", &big[..]).qos(QoS::AtLeastOnce)), id);
                conn.verif_session_mut().verif_set_next_packet_id(t)
            }
            None => {
                for _ in 0..c.refused {
                    match bench.run(conn.publish(Publication::bytes("t", &big[..]).qos(QoS::AtLeastOnce)), id) {
                        Some(Err(e)) if matches!(Res::from_pub(&e), Res::BufferTooSmall | Res::Payload | Res::NotReady) => {}
                        other => panic!(
                            "machinery: ageing publish was not refused: {:?}",
                            other.map(|r| r.map(|_| ()).map_err(|e| Res::from_pub(&e)))
                        ),
                    }
                }
            }
        }
        let counter = conn.session().verif_runtime().next_packet_id;
        let fp = fingerprint(conn.session());
        let last = request(bench, &mut conn, id, c.then, 0x55);
        let decoded = match bench.packets(id) {
            Ok(p) => p,
            Err(e) => return (fp, vec![("UNDECODABLE:".to_string() + &e, 0)], last, counter),
        };
        let ids: Vec<(String, u16)> = decoded
            .iter()
            .filter_map(|(p, _)| match p {
                CPacket::Publish(pp) if pp.qos > 0 => Some(("PUBLISH".to_string(), pp.pid.unwrap())),
                CPacket::Subscribe { pid, .. } => Some(("SUBSCRIBE".to_string(), *pid)),
                CPacket::Unsubscribe { pid, .. } => Some(("UNSUBSCRIBE".to_string(), *pid)),
                _ => None,
            })
            .collect();
        (fp, ids, last, counter)
    });
    match out {
        Built::Ran(r) => r,
        Built::Config(e) => panic!("machinery: config refused: {}", e),
    }
}

pub fn eval(c: &Case) -> CaseOut {
    guarded("C07", || {
        let (fp_plain, ids, last, counter) = history(c, None);
        let (fp_hook, ids_hook, last_hook, _) = history(c, Some(counter));
        let mut viol = Vec::new();
        if fp_plain != fp_hook || ids != ids_hook || last != last_hook {
            viol.push((
                "C07:MACHINERY:setter-differs-from-real-history".to_string(),
                format!("hook-free history and setter disagree for {:?}: ids {:?} vs {:?}, last {:?} vs {:?}", c, ids, ids_hook, last, last_hook),
            ));
        }
        // nothing was acknowledged, so every identifier on the wire is still in flight: all distinct, none zero
        for (i, (k, id)) in ids.iter().enumerate() {
            if *id == 0 {
                let kind = if k.starts_with("UNDECODABLE") { "undecodable-packet" } else { k.as_str() };
                viol.push(("C07:id-zero:".to_string() + kind, format!("{} carries identifier 0 ({:?})", k, c)));
            }
            if let Some((k0, _)) = ids[..i].iter().find(|(_, other)| other == id) {
                viol.push((
                    format!("C07:id-in-use:long-history-{}-vs-{}", k.to_lowercase(), k0.to_lowercase()),
                    format!("after {} refused requests {} reuses identifier {} of an unacknowledged {} ({:?})", c.refused, k, id, k0, ids),
                ));
            }
        }
        CaseOut {
            class: hash_of(&(ids.last().map(|x| x.1), last.is_ok(), c.inflight.len())),
            viol,
        }
    })
}

pub fn run(tier: Tier, caps: &Caps) -> Vec<FamilyReport> {
    let cs = cases(tier);
    vec![sweep(
        "C07-hook-free-long-histories",
        "C07",
        cs.len() as u64,
        caps,
        json!({"histories": "1-3 requests left in flight (QoS 1, QoS 2 past PUBREC, SUBSCRIBE, UNSUBSCRIBE), then N locally refused publishes with N placing the counter before/on/after every live identifier and across one, two or three wraps, then one more request of each kind; run once without the hook and once with the setter; fingerprints, wire identifiers and results must agree", "cases": cs.len()}),
        &|i| eval(&cs[i as usize]),
        &|i| serde_json::to_value(&cs[i as usize]).unwrap(),
    )]
}

pub fn replay(_name: &str, case: &Value) -> Option<CaseOut> {
    let c: Case = serde_json::from_value(case.clone()).ok()?;
    Some(eval(&c))
}

#[allow(unused)]
fn _keep(_: mr::Fixed) {}
