mod bench;
mod broker;
mod cfg;
mod chooser;
mod clock;
mod convert;
mod direct;
mod direct2;
mod d_c07;
mod d_c09;
mod d_c10;
mod d_c14;
mod d_c17;
mod d_c05;
mod d_c18;
mod closure;
mod d_c19;
mod d_c20;
mod explore;
mod families;
mod mqtt_ref;
mod oracle;
mod report;
mod world;

use families::Tier;
use std::time::Duration;

fn usage() -> ! {
    eprintln!("usage: mcx check <Cxx> [--tier quick|thorough] [--threads N] [--wall SECS]\n       mcx replay <file>\n       mcx selftest");
    std::process::exit(2);
}

fn main() {
    // Panics inside the client are caught per execution and judged by the oracle; keep stderr quiet.
    // Harness failures ("machinery: ...") are printed.
    std::panic::set_hook(Box::new(|info| {
        let text = info.payload().downcast_ref::<&str>().map(|s| s.to_string()).or_else(|| info.payload().downcast_ref::<String>().cloned()).unwrap_or_default();
        if text.starts_with("machinery:") && std::thread::current().name() == Some("main") {
            eprintln!("{}", text);
        }
    }));
    let args: Vec<String> = std::env::args().collect();
    if args.len() < 2 {
        usage();
    }
    match args[1].as_str() {
        "selftest" => match mqtt_ref::self_test() {
            Ok(n) => println!("mqtt_ref self test: {} cases ok", n),
            Err(e) => {
                eprintln!("mqtt_ref self test FAILED: {}", e);
                std::process::exit(2);
            }
        },
        "check" => {
            if args.len() < 3 {
                usage();
            }
            let prop = args[2].clone();
            let mut tier = match std::env::var("VERIF_TIER").as_deref() {
                Ok("thorough") => Tier::Thorough,
                _ => Tier::Quick,
            };
            let mut caps = explore::Caps::default();
            let mut i = 3;
            while i < args.len() {
                match args[i].as_str() {
                    "--tier" => {
                        tier = if args.get(i + 1).map(|s| s.as_str()) == Some("thorough") {
                            Tier::Thorough
                        } else {
                            Tier::Quick
                        };
                        i += 1;
                    }
                    "--threads" => {
                        caps.threads = args.get(i + 1).and_then(|s| s.parse().ok()).unwrap_or(caps.threads);
                        i += 1;
                    }
                    "--wall" => {
                        caps.wall = Duration::from_secs(args.get(i + 1).and_then(|s| s.parse().ok()).unwrap_or(600));
                        i += 1;
                    }
                    _ => usage(),
                }
                i += 1;
            }
            std::process::exit(report::run_check(&prop, tier, caps));
        }
        "replay" => {
            if args.len() < 3 {
                usage();
            }
            std::process::exit(report::run_replay(&args[2]));
        }
        _ => usage(),
    }
}
