//! Independent MQTT 5 reference codec, written from the OASIS MQTT Version 5.0 specification.
//!
//! Nothing here uses minimq's encoder or decoder. It is the trusted base of every wire oracle:
//! * a strict decoder for client -> server packets (`decode_client`),
//! * an encoder for server -> client packets (`SPacket::encode`),
//! * a strict decoder/classifier for server -> client bytes (`classify_server`).
#![allow(dead_code)]

use std::fmt;

// ---------------------------------------------------------------------------------------------
// Properties
// ---------------------------------------------------------------------------------------------

#[derive(Clone, PartialEq, Eq, Hash, PartialOrd, Ord)]
pub enum PVal {
    Byte(u8),
    U16(u16),
    U32(u32),
    Var(u32),
    Str(Vec<u8>),
    Bin(Vec<u8>),
    Pair(Vec<u8>, Vec<u8>),
}

#[derive(Clone, PartialEq, Eq, Hash, PartialOrd, Ord)]
pub struct Prop {
    pub id: u8,
    pub val: PVal,
}

impl fmt::Debug for Prop {
    fn fmt(&self, f: &mut fmt::Formatter<'_>) -> fmt::Result {
        match &self.val {
            PVal::Byte(v) => write!(f, "p{:02x}={}", self.id, v),
            PVal::U16(v) => write!(f, "p{:02x}={}", self.id, v),
            PVal::U32(v) => write!(f, "p{:02x}={}", self.id, v),
            PVal::Var(v) => write!(f, "p{:02x}=v{}", self.id, v),
            PVal::Str(v) => write!(f, "p{:02x}={:?}", self.id, String::from_utf8_lossy(v)),
            PVal::Bin(v) => write!(f, "p{:02x}=x{}", self.id, hex(v)),
            PVal::Pair(k, v) => write!(
                f,
                "p{:02x}={:?}:{:?}",
                self.id,
                String::from_utf8_lossy(k),
                String::from_utf8_lossy(v)
            ),
        }
    }
}

/// Two property lists say the same thing: same properties with the same multiplicities (MQTT attaches
/// no meaning to the order of different properties) and the User Properties in the same relative order
/// (the one order MQTT requires to be preserved).
pub fn props_equiv(a: &[Prop], b: &[Prop]) -> bool {
    let mut x = a.to_vec();
    let mut y = b.to_vec();
    x.sort();
    y.sort();
    let ua: Vec<&Prop> = a.iter().filter(|p| p.id == 0x26).collect();
    let ub: Vec<&Prop> = b.iter().filter(|p| p.id == 0x26).collect();
    x == y && ua == ub
}

/// Hex for traces: long buffers are abbreviated (first 48 and last 8 bytes).
pub fn hex_short(b: &[u8]) -> String {
    if b.len() <= 96 {
        hex(b)
    } else {
        format!("{}..({} bytes)..{}", hex(&b[..48]), b.len(), hex(&b[b.len() - 8..]))
    }
}

pub fn hex(b: &[u8]) -> String {
    let mut s = String::with_capacity(b.len() * 2);
    for x in b {
        s.push_str(&format!("{:02x}", x));
    }
    s
}

#[derive(Copy, Clone, PartialEq, Eq, Debug)]
pub enum PType {
    Byte,
    U16,
    U32,
    Var,
    Str,
    Bin,
    Pair,
}

/// Table 2-4 of the specification: identifier -> data type.
pub fn prop_type(id: u32) -> Option<PType> {
    Some(match id {
        0x01 => PType::Byte,
        0x02 => PType::U32,
        0x03 => PType::Str,
        0x08 => PType::Str,
        0x09 => PType::Bin,
        0x0B => PType::Var,
        0x11 => PType::U32,
        0x12 => PType::Str,
        0x13 => PType::U16,
        0x15 => PType::Str,
        0x16 => PType::Bin,
        0x17 => PType::Byte,
        0x18 => PType::U32,
        0x19 => PType::Byte,
        0x1A => PType::Str,
        0x1C => PType::Str,
        0x1F => PType::Str,
        0x21 => PType::U16,
        0x22 => PType::U16,
        0x23 => PType::U16,
        0x24 => PType::Byte,
        0x25 => PType::Byte,
        0x26 => PType::Pair,
        0x27 => PType::U32,
        0x28 => PType::Byte,
        0x29 => PType::Byte,
        0x2A => PType::Byte,
        _ => return None,
    })
}

pub const ALL_PROP_IDS: [u8; 27] = [
    0x01, 0x02, 0x03, 0x08, 0x09, 0x0B, 0x11, 0x12, 0x13, 0x15, 0x16, 0x17, 0x18, 0x19, 0x1A, 0x1C,
    0x1F, 0x21, 0x22, 0x23, 0x24, 0x25, 0x26, 0x27, 0x28, 0x29, 0x2A,
];

/// Packet contexts in which properties appear.
#[derive(Copy, Clone, PartialEq, Eq, Debug, Hash)]
pub enum Ctx {
    Connect,
    Will,
    ConnAck,
    Publish,
    PubAckLike, // PUBACK, PUBREC, PUBREL, PUBCOMP
    Subscribe,
    SubAckLike, // SUBACK, UNSUBACK
    Unsubscribe,
    Disconnect,
    Auth,
}

/// Which properties the specification allows in which packet (sections 3.x.2.x).
pub fn prop_allowed(ctx: Ctx, id: u8) -> bool {
    match ctx {
        Ctx::Connect => matches!(id, 0x11 | 0x21 | 0x27 | 0x22 | 0x19 | 0x17 | 0x26 | 0x15 | 0x16),
        Ctx::Will => matches!(id, 0x18 | 0x01 | 0x02 | 0x03 | 0x08 | 0x09 | 0x26),
        Ctx::ConnAck => matches!(
            id,
            0x11 | 0x21
                | 0x24
                | 0x25
                | 0x27
                | 0x12
                | 0x22
                | 0x1F
                | 0x26
                | 0x28
                | 0x29
                | 0x2A
                | 0x13
                | 0x1A
                | 0x1C
                | 0x15
                | 0x16
        ),
        Ctx::Publish => matches!(id, 0x01 | 0x02 | 0x23 | 0x08 | 0x09 | 0x26 | 0x0B | 0x03),
        Ctx::PubAckLike => matches!(id, 0x1F | 0x26),
        Ctx::Subscribe => matches!(id, 0x0B | 0x26),
        Ctx::SubAckLike => matches!(id, 0x1F | 0x26),
        Ctx::Unsubscribe => matches!(id, 0x26),
        Ctx::Disconnect => matches!(id, 0x11 | 0x1F | 0x26 | 0x1C),
        Ctx::Auth => matches!(id, 0x15 | 0x16 | 0x1F | 0x26),
    }
}

/// Value constraints stated by the specification for individual properties.
pub fn prop_value_ok(p: &Prop) -> bool {
    match (p.id, &p.val) {
        (0x01, PVal::Byte(v)) => *v <= 1,
        (0x17, PVal::Byte(v)) | (0x19, PVal::Byte(v)) => *v <= 1,
        (0x25, PVal::Byte(v)) | (0x28, PVal::Byte(v)) | (0x29, PVal::Byte(v)) | (0x2A, PVal::Byte(v)) => {
            *v <= 1
        }
        (0x24, PVal::Byte(v)) => *v <= 1, // Maximum QoS: only 0 or 1 may be sent (absent means 2)
        (0x0B, PVal::Var(v)) => *v >= 1 && *v <= 268_435_455,
        (0x21, PVal::U16(v)) => *v != 0,
        (0x23, PVal::U16(v)) => *v != 0,
        (0x27, PVal::U32(v)) => *v != 0,
        _ => true,
    }
}

// ---------------------------------------------------------------------------------------------
// Low-level reader / writer
// ---------------------------------------------------------------------------------------------

#[derive(Clone, PartialEq, Eq, Debug)]
pub enum Bad {
    /// More bytes are needed before anything can be said.
    Incomplete,
    /// Malformed, with the class named in property C08 where there is one.
    Malformed(MalClass, &'static str),
}

/// Malformation classes. The first group is the list quoted by property C08.
#[derive(Copy, Clone, PartialEq, Eq, Debug, Hash, PartialOrd, Ord)]
pub enum MalClass {
    BadVarint,        // non-canonical or oversized variable-length integer
    BadType,          // reserved or wrong-direction packet type
    BadFlags,         // illegal fixed-header flags
    Qos3,             // QoS 3
    FieldOverrun,     // a field runs past the end of the packet
    Trailing,         // trailing garbage after the last field
    BadTopicUtf8,     // invalid UTF-8 in a PUBLISH topic
    TooLarge,         // larger than the receive buffer (assigned by callers, not here)
    /// a property identifier MQTT 5 does not define at all (the value that follows cannot even be delimited)
    UnknownProperty,
    // Everything else the specification calls malformed / protocol error:
    Other,
}

fn mal<T>(c: MalClass, why: &'static str) -> Result<T, Bad> {
    Err(Bad::Malformed(c, why))
}

pub struct Rd<'a> {
    pub b: &'a [u8],
    pub i: usize,
}

impl<'a> Rd<'a> {
    pub fn new(b: &'a [u8]) -> Self {
        Rd { b, i: 0 }
    }
    pub fn left(&self) -> usize {
        self.b.len() - self.i
    }
    pub fn u8(&mut self) -> Result<u8, Bad> {
        if self.left() < 1 {
            return mal(MalClass::FieldOverrun, "u8 past end");
        }
        let v = self.b[self.i];
        self.i += 1;
        Ok(v)
    }
    pub fn u16(&mut self) -> Result<u16, Bad> {
        if self.left() < 2 {
            return mal(MalClass::FieldOverrun, "u16 past end");
        }
        let v = u16::from_be_bytes([self.b[self.i], self.b[self.i + 1]]);
        self.i += 2;
        Ok(v)
    }
    pub fn u32(&mut self) -> Result<u32, Bad> {
        if self.left() < 4 {
            return mal(MalClass::FieldOverrun, "u32 past end");
        }
        let v = u32::from_be_bytes([
            self.b[self.i],
            self.b[self.i + 1],
            self.b[self.i + 2],
            self.b[self.i + 3],
        ]);
        self.i += 4;
        Ok(v)
    }
    pub fn take(&mut self, n: usize) -> Result<&'a [u8], Bad> {
        if self.left() < n {
            return mal(MalClass::FieldOverrun, "field past end");
        }
        let s = &self.b[self.i..self.i + n];
        self.i += n;
        Ok(s)
    }
    /// Variable byte integer (1.5.5): at most four bytes, minimal encoding required.
    pub fn varint(&mut self) -> Result<u32, Bad> {
        let mut v: u32 = 0;
        for k in 0..4 {
            if self.left() < 1 {
                return mal(MalClass::FieldOverrun, "varint past end");
            }
            let byte = self.b[self.i];
            self.i += 1;
            v |= ((byte & 0x7F) as u32) << (7 * k);
            if byte & 0x80 == 0 {
                if k > 0 && byte == 0 {
                    return mal(MalClass::BadVarint, "non-minimal varint");
                }
                return Ok(v);
            }
        }
        mal(MalClass::BadVarint, "varint longer than four bytes")
    }
    pub fn bin(&mut self) -> Result<&'a [u8], Bad> {
        let n = self.u16()? as usize;
        self.take(n)
    }
    /// UTF-8 encoded string (1.5.4): well-formed, no U+0000, no surrogates.
    pub fn string(&mut self) -> Result<&'a [u8], Bad> {
        let s = self.bin()?;
        if !utf8_ok(s) {
            return mal(MalClass::Other, "ill-formed UTF-8 string");
        }
        Ok(s)
    }
}

pub fn utf8_ok(s: &[u8]) -> bool {
    match std::str::from_utf8(s) {
        Ok(t) => !t.contains('\u{0}'),
        Err(_) => false,
    }
}

pub fn put_varint(out: &mut Vec<u8>, mut v: u32) {
    assert!(v <= 268_435_455);
    loop {
        let mut b = (v & 0x7F) as u8;
        v >>= 7;
        if v != 0 {
            b |= 0x80;
        }
        out.push(b);
        if v == 0 {
            break;
        }
    }
}

pub fn varint_len(v: u32) -> usize {
    match v {
        0..=127 => 1,
        128..=16383 => 2,
        16384..=2097151 => 3,
        _ => 4,
    }
}

pub fn put_bin(out: &mut Vec<u8>, b: &[u8]) {
    assert!(b.len() <= 65535);
    out.extend_from_slice(&(b.len() as u16).to_be_bytes());
    out.extend_from_slice(b);
}

pub fn put_props(out: &mut Vec<u8>, props: &[Prop]) {
    let mut body = Vec::new();
    for p in props {
        put_prop(&mut body, p);
    }
    put_varint(out, body.len() as u32);
    out.extend_from_slice(&body);
}

pub fn put_prop(body: &mut Vec<u8>, p: &Prop) {
    put_varint(body, p.id as u32);
    match &p.val {
        PVal::Byte(v) => body.push(*v),
        PVal::U16(v) => body.extend_from_slice(&v.to_be_bytes()),
        PVal::U32(v) => body.extend_from_slice(&v.to_be_bytes()),
        PVal::Var(v) => put_varint(body, *v),
        PVal::Str(v) | PVal::Bin(v) => put_bin(body, v),
        PVal::Pair(k, v) => {
            put_bin(body, k);
            put_bin(body, v);
        }
    }
}

/// Parse a property block for `ctx`. Checks types, legality for the packet, multiplicity and values.
pub fn read_props(r: &mut Rd<'_>, ctx: Ctx) -> Result<Vec<Prop>, Bad> {
    let len = r.varint()? as usize;
    if r.left() < len {
        return mal(MalClass::FieldOverrun, "property block past end");
    }
    let mut sub = Rd::new(&r.b[r.i..r.i + len]);
    r.i += len;
    read_props_inner(&mut sub, ctx).map_err(|e| match e {
        // anything wrong *inside* a property block is its own class (the block as a whole was
        // delimited correctly, so the packet framing is intact) - except a variable byte integer that is
        // non-canonical or too long: that is malformed wherever it stands
        Bad::Malformed(MalClass::BadVarint, why) => Bad::Malformed(MalClass::BadVarint, why),
        Bad::Malformed(MalClass::UnknownProperty, why) => Bad::Malformed(MalClass::UnknownProperty, why),
        Bad::Malformed(_, why) => Bad::Malformed(MalClass::Other, why),
        other => other,
    })
}

fn read_props_inner(sub: &mut Rd<'_>, ctx: Ctx) -> Result<Vec<Prop>, Bad> {
    let mut out: Vec<Prop> = Vec::new();
    while sub.left() > 0 {
        let id = sub.varint()?;
        let Some(ty) = prop_type(id) else {
            return mal(MalClass::UnknownProperty, "unknown property identifier");
        };
        let id = id as u8;
        let val = match ty {
            PType::Byte => PVal::Byte(sub.u8()?),
            PType::U16 => PVal::U16(sub.u16()?),
            PType::U32 => PVal::U32(sub.u32()?),
            PType::Var => PVal::Var(sub.varint()?),
            PType::Str => PVal::Str(sub.string()?.to_vec()),
            PType::Bin => PVal::Bin(sub.bin()?.to_vec()),
            PType::Pair => {
                let k = sub.string()?.to_vec();
                let v = sub.string()?.to_vec();
                PVal::Pair(k, v)
            }
        };
        let p = Prop { id, val };
        if !prop_allowed(ctx, id) {
            return mal(MalClass::Other, "property not allowed in this packet");
        }
        if !prop_value_ok(&p) {
            return mal(MalClass::Other, "illegal property value");
        }
        let repeatable = id == 0x26 || (id == 0x0B && ctx == Ctx::Publish);
        if !repeatable && out.iter().any(|q| q.id == id) {
            return mal(MalClass::Other, "property included more than once");
        }
        out.push(p);
    }
    Ok(out)
}

// ---------------------------------------------------------------------------------------------
// Fixed header
// ---------------------------------------------------------------------------------------------

#[derive(Copy, Clone, Debug, PartialEq, Eq)]
pub struct Fixed {
    pub first: u8,
    pub remaining: usize,
    pub header_len: usize,
}

impl Fixed {
    pub fn total(&self) -> usize {
        self.header_len + self.remaining
    }
}

/// Parse the fixed header. `Incomplete` if the bytes seen so far are a proper prefix of one.
pub fn fixed_header(b: &[u8]) -> Result<Fixed, Bad> {
    if b.is_empty() {
        return Err(Bad::Incomplete);
    }
    let mut v: usize = 0;
    for k in 0..4 {
        let Some(&byte) = b.get(1 + k) else {
            return Err(Bad::Incomplete);
        };
        v |= ((byte & 0x7F) as usize) << (7 * k);
        if byte & 0x80 == 0 {
            if k > 0 && byte == 0 {
                return mal(MalClass::BadVarint, "non-minimal remaining length");
            }
            return Ok(Fixed {
                first: b[0],
                remaining: v,
                header_len: 2 + k,
            });
        }
    }
    mal(MalClass::BadVarint, "remaining length longer than four bytes")
}

// ---------------------------------------------------------------------------------------------
// Client -> server packets
// ---------------------------------------------------------------------------------------------

#[derive(Clone, PartialEq, Eq, Debug)]
pub struct WillMsg {
    pub qos: u8,
    pub retain: bool,
    pub props: Vec<Prop>,
    pub topic: Vec<u8>,
    pub payload: Vec<u8>,
}

#[derive(Clone, PartialEq, Eq, Debug)]
pub struct ConnectPkt {
    pub clean_start: bool,
    pub keep_alive: u16,
    pub props: Vec<Prop>,
    pub client_id: Vec<u8>,
    pub will: Option<WillMsg>,
    pub user: Option<Vec<u8>>,
    pub pass: Option<Vec<u8>>,
}

#[derive(Clone, PartialEq, Eq, Debug)]
pub struct PublishPkt {
    pub dup: bool,
    pub qos: u8,
    pub retain: bool,
    pub topic: Vec<u8>,
    pub pid: Option<u16>,
    pub props: Vec<Prop>,
    pub payload: Vec<u8>,
}

#[derive(Copy, Clone, PartialEq, Eq, Debug, Hash, PartialOrd, Ord)]
pub enum AckKind {
    PubAck,
    PubRec,
    PubRel,
    PubComp,
}

#[derive(Clone, PartialEq, Eq, Debug)]
pub struct AckPkt {
    pub kind: AckKind,
    pub pid: u16,
    pub reason: u8,
    pub props: Vec<Prop>,
}

#[derive(Clone, PartialEq, Eq, Debug)]
pub enum CPacket {
    Connect(ConnectPkt),
    Publish(PublishPkt),
    Ack(AckPkt),
    Subscribe {
        pid: u16,
        props: Vec<Prop>,
        filters: Vec<(Vec<u8>, u8)>,
    },
    Unsubscribe {
        pid: u16,
        props: Vec<Prop>,
        filters: Vec<Vec<u8>>,
    },
    PingReq,
    Disconnect {
        reason: u8,
        props: Vec<Prop>,
    },
    Auth {
        reason: u8,
        props: Vec<Prop>,
    },
}

impl CPacket {
    pub fn name(&self) -> &'static str {
        match self {
            CPacket::Connect(_) => "CONNECT",
            CPacket::Publish(_) => "PUBLISH",
            CPacket::Ack(a) => match a.kind {
                AckKind::PubAck => "PUBACK",
                AckKind::PubRec => "PUBREC",
                AckKind::PubRel => "PUBREL",
                AckKind::PubComp => "PUBCOMP",
            },
            CPacket::Subscribe { .. } => "SUBSCRIBE",
            CPacket::Unsubscribe { .. } => "UNSUBSCRIBE",
            CPacket::PingReq => "PINGREQ",
            CPacket::Disconnect { .. } => "DISCONNECT",
            CPacket::Auth { .. } => "AUTH",
        }
    }
    pub fn pid(&self) -> Option<u16> {
        match self {
            CPacket::Publish(p) => p.pid,
            CPacket::Ack(a) => Some(a.pid),
            CPacket::Subscribe { pid, .. } | CPacket::Unsubscribe { pid, .. } => Some(*pid),
            _ => None,
        }
    }
}

fn ack_reason_ok(kind: AckKind, r: u8) -> bool {
    match kind {
        AckKind::PubAck | AckKind::PubRec => {
            matches!(r, 0x00 | 0x10 | 0x80 | 0x83 | 0x87 | 0x90 | 0x91 | 0x97 | 0x99)
        }
        AckKind::PubRel | AckKind::PubComp => matches!(r, 0x00 | 0x92),
    }
}

const DISCONNECT_REASONS: [u8; 29] = [
    0x00, 0x04, 0x80, 0x81, 0x82, 0x83, 0x87, 0x89, 0x8B, 0x8D, 0x8E, 0x8F, 0x90, 0x93, 0x94, 0x95,
    0x96, 0x97, 0x98, 0x99, 0x9A, 0x9B, 0x9C, 0x9D, 0x9E, 0x9F, 0xA0, 0xA1, 0xA2,
];

/// Topic Name rules (4.7): at least one character, no wildcard characters.
pub fn topic_name_ok(t: &[u8]) -> bool {
    !t.is_empty() && !t.iter().any(|c| *c == b'#' || *c == b'+')
}

fn read_ack_body(kind: AckKind, r: &mut Rd<'_>) -> Result<AckPkt, Bad> {
    let pid = r.u16()?;
    if pid == 0 {
        return mal(MalClass::Other, "packet identifier 0");
    }
    let (reason, props) = if r.left() == 0 {
        (0u8, Vec::new())
    } else {
        let reason = r.u8()?;
        let props = if r.left() == 0 {
            Vec::new()
        } else {
            read_props(r, Ctx::PubAckLike)?
        };
        (reason, props)
    };
    if !ack_reason_ok(kind, reason) {
        return mal(MalClass::Other, "reason code not defined for this packet");
    }
    if r.left() != 0 {
        return mal(MalClass::Trailing, "bytes after the last field");
    }
    Ok(AckPkt {
        kind,
        pid,
        reason,
        props,
    })
}

/// Strictly decode one client -> server packet from the front of `b`.
/// Returns the packet and the number of bytes it occupies.
pub fn decode_client(b: &[u8]) -> Result<(CPacket, usize), Bad> {
    let fh = fixed_header(b)?;
    if b.len() < fh.total() {
        return Err(Bad::Incomplete);
    }
    let ty = fh.first >> 4;
    let flags = fh.first & 0x0F;
    let mut r = Rd::new(&b[fh.header_len..fh.total()]);
    let pkt = match ty {
        1 => {
            if flags != 0 {
                return mal(MalClass::BadFlags, "CONNECT flags");
            }
            let name = r.string()?;
            if name != b"MQTT" {
                return mal(MalClass::Other, "protocol name");
            }
            if r.u8()? != 5 {
                return mal(MalClass::Other, "protocol version");
            }
            let cf = r.u8()?;
            if cf & 1 != 0 {
                return mal(MalClass::Other, "CONNECT reserved flag");
            }
            let clean_start = cf & 2 != 0;
            let will_flag = cf & 4 != 0;
            let will_qos = (cf >> 3) & 3;
            let will_retain = cf & 0x20 != 0;
            let pass_flag = cf & 0x40 != 0;
            let user_flag = cf & 0x80 != 0;
            if will_qos == 3 {
                return mal(MalClass::Qos3, "will QoS 3");
            }
            if !will_flag && (will_qos != 0 || will_retain) {
                return mal(MalClass::Other, "will QoS/retain without will flag");
            }
            let keep_alive = r.u16()?;
            let props = read_props(&mut r, Ctx::Connect)?;
            if props.iter().any(|p| p.id == 0x16) && !props.iter().any(|p| p.id == 0x15) {
                return mal(MalClass::Other, "authentication data without method");
            }
            let client_id = r.string()?.to_vec();
            let will = if will_flag {
                let wprops = read_props(&mut r, Ctx::Will)?;
                let topic = r.string()?.to_vec();
                if !topic_name_ok(&topic) {
                    return mal(MalClass::Other, "will topic");
                }
                let payload = r.bin()?.to_vec();
                Some(WillMsg {
                    qos: will_qos,
                    retain: will_retain,
                    props: wprops,
                    topic,
                    payload,
                })
            } else {
                None
            };
            let user = if user_flag {
                Some(r.string()?.to_vec())
            } else {
                None
            };
            let pass = if pass_flag {
                Some(r.bin()?.to_vec())
            } else {
                None
            };
            CPacket::Connect(ConnectPkt {
                clean_start,
                keep_alive,
                props,
                client_id,
                will,
                user,
                pass,
            })
        }
        3 => {
            let dup = flags & 8 != 0;
            let qos = (flags >> 1) & 3;
            let retain = flags & 1 != 0;
            if qos == 3 {
                return mal(MalClass::Qos3, "PUBLISH QoS 3");
            }
            if qos == 0 && dup {
                return mal(MalClass::BadFlags, "DUP set on QoS 0 PUBLISH");
            }
            let topic = r.string()?.to_vec();
            let pid = if qos > 0 {
                let pid = r.u16()?;
                if pid == 0 {
                    return mal(MalClass::Other, "packet identifier 0");
                }
                Some(pid)
            } else {
                None
            };
            let props = read_props(&mut r, Ctx::Publish)?;
            if props.iter().any(|p| p.id == 0x0B) {
                return mal(MalClass::Other, "subscription identifier in client PUBLISH");
            }
            let has_alias = props.iter().any(|p| p.id == 0x23);
            if topic.is_empty() {
                if !has_alias {
                    return mal(MalClass::Other, "empty topic without alias");
                }
            } else if !topic_name_ok(&topic) {
                return mal(MalClass::Other, "wildcard in topic name");
            }
            let payload = r.take(r.left())?.to_vec();
            CPacket::Publish(PublishPkt {
                dup,
                qos,
                retain,
                topic,
                pid,
                props,
                payload,
            })
        }
        4 | 5 | 7 => {
            if flags != 0 {
                return mal(MalClass::BadFlags, "ack flags");
            }
            let kind = match ty {
                4 => AckKind::PubAck,
                5 => AckKind::PubRec,
                _ => AckKind::PubComp,
            };
            CPacket::Ack(read_ack_body(kind, &mut r)?)
        }
        6 => {
            if flags != 2 {
                return mal(MalClass::BadFlags, "PUBREL flags");
            }
            CPacket::Ack(read_ack_body(AckKind::PubRel, &mut r)?)
        }
        8 => {
            if flags != 2 {
                return mal(MalClass::BadFlags, "SUBSCRIBE flags");
            }
            let pid = r.u16()?;
            if pid == 0 {
                return mal(MalClass::Other, "packet identifier 0");
            }
            let props = read_props(&mut r, Ctx::Subscribe)?;
            let mut filters = Vec::new();
            while r.left() > 0 {
                let f = r.string()?.to_vec();
                if f.is_empty() {
                    return mal(MalClass::Other, "empty topic filter");
                }
                let o = r.u8()?;
                if o & 0xC0 != 0 {
                    return mal(MalClass::Other, "subscription options reserved bits");
                }
                if o & 3 == 3 {
                    return mal(MalClass::Qos3, "subscription maximum QoS 3");
                }
                if (o >> 4) & 3 == 3 {
                    return mal(MalClass::Other, "retain handling 3");
                }
                filters.push((f, o));
            }
            if filters.is_empty() {
                return mal(MalClass::Other, "SUBSCRIBE without filters");
            }
            CPacket::Subscribe {
                pid,
                props,
                filters,
            }
        }
        10 => {
            if flags != 2 {
                return mal(MalClass::BadFlags, "UNSUBSCRIBE flags");
            }
            let pid = r.u16()?;
            if pid == 0 {
                return mal(MalClass::Other, "packet identifier 0");
            }
            let props = read_props(&mut r, Ctx::Unsubscribe)?;
            let mut filters = Vec::new();
            while r.left() > 0 {
                let f = r.string()?.to_vec();
                if f.is_empty() {
                    return mal(MalClass::Other, "empty topic filter");
                }
                filters.push(f);
            }
            if filters.is_empty() {
                return mal(MalClass::Other, "UNSUBSCRIBE without filters");
            }
            CPacket::Unsubscribe {
                pid,
                props,
                filters,
            }
        }
        12 => {
            if flags != 0 {
                return mal(MalClass::BadFlags, "PINGREQ flags");
            }
            CPacket::PingReq
        }
        14 | 15 => {
            if flags != 0 {
                return mal(MalClass::BadFlags, "DISCONNECT/AUTH flags");
            }
            let (reason, props) = if r.left() == 0 {
                (0u8, Vec::new())
            } else {
                let reason = r.u8()?;
                let props = if r.left() == 0 {
                    Vec::new()
                } else {
                    read_props(&mut r, if ty == 14 { Ctx::Disconnect } else { Ctx::Auth })?
                };
                (reason, props)
            };
            if ty == 14 {
                if !DISCONNECT_REASONS.contains(&reason) {
                    return mal(MalClass::Other, "reason code not defined for DISCONNECT");
                }
                CPacket::Disconnect { reason, props }
            } else {
                if !matches!(reason, 0x00 | 0x18 | 0x19) {
                    return mal(MalClass::Other, "reason code not defined for AUTH");
                }
                CPacket::Auth { reason, props }
            }
        }
        _ => return mal(MalClass::BadType, "packet type a client may not send"),
    };
    if r.left() != 0 {
        return mal(MalClass::Trailing, "bytes after the last field");
    }
    Ok((pkt, fh.total()))
}

// ---------------------------------------------------------------------------------------------
// Server -> client packets
// ---------------------------------------------------------------------------------------------

#[derive(Clone, PartialEq, Eq, Debug, Hash)]
pub enum SPacket {
    ConnAck {
        session_present: bool,
        reason: u8,
        props: Vec<Prop>,
    },
    Publish {
        dup: bool,
        qos: u8,
        retain: bool,
        topic: Vec<u8>,
        pid: Option<u16>,
        props: Vec<Prop>,
        payload: Vec<u8>,
    },
    Ack {
        kind: AckKind,
        pid: u16,
        reason: u8,
        props: Vec<Prop>,
        /// 0 = shortest legal form, 1 = explicit reason code, 2 = explicit property length
        form: u8,
    },
    SubAck {
        pid: u16,
        props: Vec<Prop>,
        codes: Vec<u8>,
    },
    UnsubAck {
        pid: u16,
        props: Vec<Prop>,
        codes: Vec<u8>,
    },
    PingResp,
    Disconnect {
        reason: u8,
        props: Vec<Prop>,
        form: u8,
    },
    Auth {
        reason: u8,
        props: Vec<Prop>,
    },
}

fn frame(first: u8, body: &[u8]) -> Vec<u8> {
    let mut out = vec![first];
    put_varint(&mut out, body.len() as u32);
    out.extend_from_slice(body);
    out
}

impl SPacket {
    pub fn name(&self) -> &'static str {
        match self {
            SPacket::ConnAck { .. } => "CONNACK",
            SPacket::Publish { .. } => "PUBLISH",
            SPacket::Ack { kind, .. } => match kind {
                AckKind::PubAck => "PUBACK",
                AckKind::PubRec => "PUBREC",
                AckKind::PubRel => "PUBREL",
                AckKind::PubComp => "PUBCOMP",
            },
            SPacket::SubAck { .. } => "SUBACK",
            SPacket::UnsubAck { .. } => "UNSUBACK",
            SPacket::PingResp => "PINGRESP",
            SPacket::Disconnect { .. } => "DISCONNECT",
            SPacket::Auth { .. } => "AUTH",
        }
    }

    pub fn encode(&self) -> Vec<u8> {
        let mut b = Vec::new();
        match self {
            SPacket::ConnAck {
                session_present,
                reason,
                props,
            } => {
                b.push(*session_present as u8);
                b.push(*reason);
                put_props(&mut b, props);
                frame(0x20, &b)
            }
            SPacket::Publish {
                dup,
                qos,
                retain,
                topic,
                pid,
                props,
                payload,
            } => {
                put_bin(&mut b, topic);
                if *qos > 0 {
                    b.extend_from_slice(&pid.expect("pid").to_be_bytes());
                }
                put_props(&mut b, props);
                b.extend_from_slice(payload);
                frame(
                    0x30 | ((*dup as u8) << 3) | (*qos << 1) | (*retain as u8),
                    &b,
                )
            }
            SPacket::Ack {
                kind,
                pid,
                reason,
                props,
                form,
            } => {
                b.extend_from_slice(&pid.to_be_bytes());
                let need_props = !props.is_empty() || *form >= 2;
                let need_reason = need_props || *reason != 0 || *form >= 1;
                if need_reason {
                    b.push(*reason);
                }
                if need_props {
                    put_props(&mut b, props);
                }
                let first = match kind {
                    AckKind::PubAck => 0x40,
                    AckKind::PubRec => 0x50,
                    AckKind::PubRel => 0x62,
                    AckKind::PubComp => 0x70,
                };
                frame(first, &b)
            }
            SPacket::SubAck { pid, props, codes } => {
                b.extend_from_slice(&pid.to_be_bytes());
                put_props(&mut b, props);
                b.extend_from_slice(codes);
                frame(0x90, &b)
            }
            SPacket::UnsubAck { pid, props, codes } => {
                b.extend_from_slice(&pid.to_be_bytes());
                put_props(&mut b, props);
                b.extend_from_slice(codes);
                frame(0xB0, &b)
            }
            SPacket::PingResp => frame(0xD0, &[]),
            SPacket::Disconnect {
                reason,
                props,
                form,
            } => {
                let need_props = !props.is_empty() || *form >= 2;
                let need_reason = need_props || *reason != 0 || *form >= 1;
                if need_reason {
                    b.push(*reason);
                }
                if need_props {
                    put_props(&mut b, props);
                }
                frame(0xE0, &b)
            }
            SPacket::Auth { reason, props } => {
                b.push(*reason);
                put_props(&mut b, props);
                frame(0xF0, &b)
            }
        }
    }
}

const CONNACK_REASONS: [u8; 22] = [
    0x00, 0x80, 0x81, 0x82, 0x83, 0x84, 0x85, 0x86, 0x87, 0x88, 0x89, 0x8A, 0x8C, 0x90, 0x95, 0x97,
    0x99, 0x9A, 0x9B, 0x9C, 0x9D, 0x9F,
];
const SUBACK_REASONS: [u8; 12] = [
    0x00, 0x01, 0x02, 0x80, 0x83, 0x87, 0x8F, 0x91, 0x97, 0x9E, 0xA1, 0xA2,
];
const UNSUBACK_REASONS: [u8; 7] = [0x00, 0x11, 0x80, 0x83, 0x87, 0x8F, 0x91];

/// What the specification says about the bytes at the front of `b`, seen as server -> client.
#[derive(Clone, PartialEq, Eq, Debug)]
pub enum SClass {
    /// Exactly one well-formed packet of `len` bytes.
    Valid(SPacket, usize),
    Incomplete,
    Malformed(MalClass, &'static str, usize),
}

/// Strictly decode one server -> client packet from the front of `b`.
pub fn classify_server(b: &[u8]) -> SClass {
    let fh = match fixed_header(b) {
        Ok(fh) => fh,
        Err(Bad::Incomplete) => return SClass::Incomplete,
        Err(Bad::Malformed(c, w)) => return SClass::Malformed(c, w, b.len().min(5)),
    };
    if b.len() < fh.total() {
        return SClass::Incomplete;
    }
    match decode_server_body(&fh, &b[fh.header_len..fh.total()]) {
        Ok(p) => SClass::Valid(p, fh.total()),
        Err(Bad::Incomplete) => SClass::Incomplete,
        Err(Bad::Malformed(c, w)) => SClass::Malformed(c, w, fh.total()),
    }
}

fn decode_server_body(fh: &Fixed, body: &[u8]) -> Result<SPacket, Bad> {
    let ty = fh.first >> 4;
    let flags = fh.first & 0x0F;
    let mut r = Rd::new(body);
    let pkt = match ty {
        2 => {
            if flags != 0 {
                return mal(MalClass::BadFlags, "CONNACK flags");
            }
            let af = r.u8()?;
            if af > 1 {
                return mal(MalClass::Other, "CONNACK acknowledge flags reserved bits");
            }
            let reason = r.u8()?;
            if !CONNACK_REASONS.contains(&reason) {
                return mal(MalClass::Other, "reason code not defined for CONNACK");
            }
            if reason != 0 && af != 0 {
                return mal(MalClass::Other, "session present with failure reason");
            }
            let props = read_props(&mut r, Ctx::ConnAck)?;
            SPacket::ConnAck {
                session_present: af == 1,
                reason,
                props,
            }
        }
        3 => {
            let dup = flags & 8 != 0;
            let qos = (flags >> 1) & 3;
            let retain = flags & 1 != 0;
            if qos == 3 {
                return mal(MalClass::Qos3, "PUBLISH QoS 3");
            }
            if qos == 0 && dup {
                // a sender-side rule ([MQTT-3.3.1-2]); receivers commonly ignore it
                return mal(MalClass::Other, "DUP set on QoS 0 PUBLISH");
            }
            let traw = r.bin()?;
            if std::str::from_utf8(traw).is_err() {
                return mal(MalClass::BadTopicUtf8, "PUBLISH topic is not valid UTF-8");
            }
            if !utf8_ok(traw) {
                return mal(MalClass::Other, "PUBLISH topic contains U+0000");
            }
            let topic = traw.to_vec();
            let pid = if qos > 0 {
                let pid = r.u16()?;
                if pid == 0 {
                    return mal(MalClass::Other, "packet identifier 0");
                }
                Some(pid)
            } else {
                None
            };
            let props = read_props(&mut r, Ctx::Publish)?;
            let has_alias = props.iter().any(|p| p.id == 0x23);
            if topic.is_empty() {
                if !has_alias {
                    return mal(MalClass::Other, "empty topic without alias");
                }
            } else if !topic_name_ok(&topic) {
                return mal(MalClass::Other, "wildcard in topic name");
            }
            let payload = r.take(r.left())?.to_vec();
            SPacket::Publish {
                dup,
                qos,
                retain,
                topic,
                pid,
                props,
                payload,
            }
        }
        4 | 5 | 6 | 7 => {
            let kind = match ty {
                4 => AckKind::PubAck,
                5 => AckKind::PubRec,
                6 => AckKind::PubRel,
                _ => AckKind::PubComp,
            };
            let want = if ty == 6 { 2 } else { 0 };
            if flags != want {
                return mal(MalClass::BadFlags, "ack flags");
            }
            let form = match body.len() {
                0..=2 => 0,
                3 => 1,
                _ => 2,
            };
            let a = read_ack_body(kind, &mut r)?;
            SPacket::Ack {
                kind,
                pid: a.pid,
                reason: a.reason,
                props: a.props,
                form,
            }
        }
        9 | 11 => {
            if flags != 0 {
                return mal(MalClass::BadFlags, "SUBACK/UNSUBACK flags");
            }
            let pid = r.u16()?;
            if pid == 0 {
                return mal(MalClass::Other, "packet identifier 0");
            }
            let props = read_props(&mut r, Ctx::SubAckLike)?;
            let codes = r.take(r.left())?.to_vec();
            if codes.is_empty() {
                return mal(MalClass::Other, "no reason codes");
            }
            let table: &[u8] = if ty == 9 {
                &SUBACK_REASONS
            } else {
                &UNSUBACK_REASONS
            };
            if codes.iter().any(|c| !table.contains(c)) {
                return mal(MalClass::Other, "reason code not defined for this packet");
            }
            if ty == 9 {
                SPacket::SubAck { pid, props, codes }
            } else {
                SPacket::UnsubAck { pid, props, codes }
            }
        }
        13 => {
            if flags != 0 {
                return mal(MalClass::BadFlags, "PINGRESP flags");
            }
            SPacket::PingResp
        }
        14 | 15 => {
            if flags != 0 {
                return mal(MalClass::BadFlags, "DISCONNECT/AUTH flags");
            }
            let form = match body.len() {
                0 => 0,
                1 => 1,
                _ => 2,
            };
            let (reason, props) = if r.left() == 0 {
                (0u8, Vec::new())
            } else {
                let reason = r.u8()?;
                let props = if r.left() == 0 {
                    Vec::new()
                } else {
                    read_props(&mut r, if ty == 14 { Ctx::Disconnect } else { Ctx::Auth })?
                };
                (reason, props)
            };
            if ty == 14 {
                if !DISCONNECT_REASONS.contains(&reason) || reason == 0x04 {
                    return mal(MalClass::Other, "reason code not defined for server DISCONNECT");
                }
                if props.iter().any(|p| p.id == 0x11) {
                    return mal(MalClass::Other, "session expiry in server DISCONNECT");
                }
                SPacket::Disconnect {
                    reason,
                    props,
                    form,
                }
            } else {
                if !matches!(reason, 0x00 | 0x18 | 0x19) {
                    return mal(MalClass::Other, "reason code not defined for AUTH");
                }
                SPacket::Auth { reason, props }
            }
        }
        _ => return mal(MalClass::BadType, "packet type a server may not send"),
    };
    if r.left() != 0 {
        return mal(MalClass::Trailing, "bytes after the last field");
    }
    Ok(pkt)
}

// ---------------------------------------------------------------------------------------------
// Self tests: every literal frame quoted in the repository's tests, plus round trips
// ---------------------------------------------------------------------------------------------

/// Self-check run at the start of every check; a failure is a machinery error (exit 2).
pub fn self_test() -> Result<usize, String> {
    let mut n = 0;
    // client -> server frames pinned by the repository's unit tests (src/packets.rs)
    let ok_client: &[&[u8]] = &[
        &[0x30, 0x08, 0x00, 0x03, 0x41, 0x42, 0x43, 0x00, 0xAB, 0xCD],
        &[0x32, 0x0a, 0x00, 0x03, 0x41, 0x42, 0x43, 0xBE, 0xEF, 0x00, 0xAB, 0xCD],
        &[0x3A, 0x0a, 0x00, 0x03, 0x41, 0x42, 0x43, 0xBE, 0xEF, 0x00, 0xAB, 0xCD],
        &[0x82, 0x09, 0x00, 0x10, 0x00, 0x00, 0x03, 0x41, 0x42, 0x43, 0x00],
        &[0xC0, 0x00],
        &[0xE0, 0x00],
        &[0x62, 0x02, 0x00, 0x05],
        &[0x40, 0x03, 0x00, 0x05, 0x10],
        &[0xE0, 0x02, 0x00, 0x00],
        &[0xE0, 0x01, 0x04],
        // CONNECT with clean start, keep-alive 10, no properties, id "ABC"
        &[
            0x10, 0x10, 0x00, 0x04, b'M', b'Q', b'T', b'T', 0x05, 0x02, 0x00, 0x0a, 0x00, 0x00,
            0x03, 0x41, 0x42, 0x43,
        ],
    ];
    for f in ok_client {
        match decode_client(f) {
            Ok((_, len)) if len == f.len() => n += 1,
            other => return Err(format!("client frame {} -> {:?}", hex(f), other)),
        }
    }
    let bad_client: &[&[u8]] = &[
        &[0x8A, 0x09, 0x00, 0x10, 0x00, 0x00, 0x03, 0x41, 0x42, 0x43, 0x00], // SUBSCRIBE + DUP
        &[0x36, 0x06, 0x00, 0x01, 0x41, 0x00, 0x01, 0x00],                   // QoS 3
        &[0x32, 0x06, 0x00, 0x01, 0x41, 0x00, 0x00, 0x00],                   // pid 0
        &[0x30, 0x81, 0x00],                                                 // non-minimal length
        &[0x20, 0x03, 0x00, 0x00, 0x00],                                     // CONNACK from client
        &[0x62, 0x03, 0x00, 0x05],                                           // incomplete
        &[0x60, 0x02, 0x00, 0x05],                                           // PUBREL flags
        &[0x30, 0x05, 0x00, 0x01, 0x41, 0x01, 0x00],                         // props overrun
    ];
    for f in bad_client {
        if let Ok((p, _)) = decode_client(f) {
            return Err(format!("client frame {} wrongly accepted as {:?}", hex(f), p));
        }
        n += 1;
    }
    // server -> client frames pinned by src/de/received_packet.rs
    let ok_server: &[&[u8]] = &[
        &[0x20, 0x03, 0x00, 0x00, 0x00],
        &[0x30, 0x05, 0x00, 0x01, 0x41, 0x00, 0x05],
        &[0x40, 0x04, 0x00, 0x05, 0x10, 0x00],
        &[0x40, 0x02, 0x00, 0x06],
        &[0x40, 0x03, 0x00, 0x06, 0x10],
        &[0x90, 0x04, 0x00, 0x05, 0x00, 0x02],
        &[0xB0, 0x04, 0x00, 0x05, 0x00, 0x00],
        &[0xD0, 0x00],
        &[0xE0, 0x00],
        &[0x62, 0x02, 0x00, 0x05],
        &[0x50, 0x02, 0x00, 0x05],
        &[0x70, 0x02, 0x00, 0x05],
    ];
    for f in ok_server {
        match classify_server(f) {
            SClass::Valid(p, len) if len == f.len() => {
                let again = p.encode();
                match classify_server(&again) {
                    SClass::Valid(q, _) if q == p => {}
                    other => return Err(format!("round trip {} -> {:?}", hex(f), other)),
                }
                n += 1;
            }
            other => return Err(format!("server frame {} -> {:?}", hex(f), other)),
        }
    }
    let bad_server: &[(&[u8], MalClass)] = &[
        (&[0xD1, 0x00], MalClass::BadFlags),
        (&[0x60, 0x02, 0x00, 0x05], MalClass::BadFlags),
        (&[0x36, 0x06, 0x00, 0x01, 0x41, 0x00, 0x01, 0x00], MalClass::Qos3),
        (&[0x30, 0x80, 0x00], MalClass::BadVarint),
        (&[0x30, 0xFF, 0xFF, 0xFF, 0xFF], MalClass::BadVarint),
        (&[0x10, 0x00], MalClass::BadType),
        (&[0x00, 0x00], MalClass::BadType),
        (&[0xC0, 0x00], MalClass::BadType),
        (&[0xD0, 0x01, 0x00], MalClass::Trailing),
        (&[0x40, 0x01, 0x00], MalClass::FieldOverrun),
        (&[0x30, 0x04, 0x00, 0x01, 0xFF, 0x00], MalClass::BadTopicUtf8),
        (&[0x30, 0x03, 0x00, 0x05, 0x41], MalClass::FieldOverrun),
    ];
    for (f, class) in bad_server {
        match classify_server(f) {
            SClass::Malformed(c, _, _) if c == *class => n += 1,
            other => return Err(format!("server frame {} -> {:?}, want {:?}", hex(f), other, class)),
        }
    }
    // encode/decode round trips over a small grammar
    let props = vec![
        Prop {
            id: 0x26,
            val: PVal::Pair(b"k".to_vec(), b"v".to_vec()),
        },
        Prop {
            id: 0x1F,
            val: PVal::Str(b"why".to_vec()),
        },
    ];
    let pkts = vec![
        SPacket::ConnAck {
            session_present: true,
            reason: 0,
            props: vec![
                Prop {
                    id: 0x21,
                    val: PVal::U16(3),
                },
                Prop {
                    id: 0x27,
                    val: PVal::U32(100),
                },
            ],
        },
        SPacket::Publish {
            dup: true,
            qos: 2,
            retain: true,
            topic: b"a/b".to_vec(),
            pid: Some(65535),
            props: vec![
                Prop {
                    id: 0x0B,
                    val: PVal::Var(16384),
                },
                Prop {
                    id: 0x0B,
                    val: PVal::Var(1),
                },
                Prop {
                    id: 0x09,
                    val: PVal::Bin(vec![0, 255]),
                },
            ],
            payload: vec![1, 2, 3],
        },
        SPacket::Ack {
            kind: AckKind::PubRec,
            pid: 258,
            reason: 0x80,
            props: props.clone(),
            form: 2,
        },
        SPacket::SubAck {
            pid: 1,
            props: vec![],
            codes: vec![0, 1, 2, 0x80],
        },
        SPacket::Disconnect {
            reason: 0x8E,
            props,
            form: 2,
        },
    ];
    for p in pkts {
        let b = p.encode();
        match classify_server(&b) {
            SClass::Valid(q, len) if q == p && len == b.len() => n += 1,
            other => return Err(format!("grammar round trip {:?} -> {:?}", p, other)),
        }
        for cut in 0..b.len() {
            if classify_server(&b[..cut]) != SClass::Incomplete {
                return Err(format!("prefix {} of {} not incomplete", cut, hex(&b)));
            }
        }
    }
    Ok(n)
}
