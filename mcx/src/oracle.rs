//! Reference model and property monitors.
//!
//! The oracle sees only what an outside observer sees: API calls and results, the bytes offered to
//! and accepted by the transport, the packets the simulated broker emits and when the client has
//! read their last byte, delivered messages and handle status queries. (Two hook read-backs are
//! used: the number of retained entries, to decide whether a cancelled/failed request had been
//! enqueued, and `is_publish_quiescent`, which is public API anyway.)
//!
//! Every rule has an id. A violation is recorded as a signature `Cxx:<rule>:<context>`; the context
//! names the kind of operation / packet / phase involved, never incidental values.
#![allow(dead_code)]

use crate::mqtt_ref::{self as mr, AckKind, Bad, CPacket, SPacket};
use std::collections::BTreeMap;
use std::hash::{Hash, Hasher};

#[derive(Clone, Debug, PartialEq, Eq, Hash, PartialOrd, Ord)]
pub struct Violation {
    pub prop: &'static str,
    pub sig: String,
    pub detail: String,
}

#[derive(Copy, Clone, Debug, PartialEq, Eq, Hash, PartialOrd, Ord)]
pub enum ReqKind {
    Pub1,
    Pub2,
    Sub,
    Unsub,
}

impl ReqKind {
    pub fn name(&self) -> &'static str {
        match self {
            ReqKind::Pub1 => "publish1",
            ReqKind::Pub2 => "publish2",
            ReqKind::Sub => "subscribe",
            ReqKind::Unsub => "unsubscribe",
        }
    }
}

#[derive(Copy, Clone, Debug, PartialEq, Eq, Hash)]
pub enum Outcome {
    InCall,
    Returned,
    Refused,
    Cancelled,
    Failed,
}

#[derive(Clone, Debug, Hash)]
pub struct Req {
    pub seq: u8,
    pub kind: ReqKind,
    pub call_conn: usize,
    pub epoch: u32,
    pub outcome: Outcome,
    pub enq: bool,
    pub offered: bool,
    pub pid: Option<u16>,
    pub first: Option<Vec<u8>>,
    pub first_conn: Option<usize>,
    pub handle: bool,
    pub done: bool,
    pub pubrec_ok: Option<u32>, // order index of the success PUBREC consumption
    pub tx: BTreeMap<usize, u32>,
    pub rel: BTreeMap<usize, u32>,
    pub final_fail: Option<u8>,
}

impl Req {
    pub fn accepted(&self) -> bool {
        self.handle || self.enq || self.offered
    }
    pub fn live(&self, epoch: u32) -> bool {
        self.accepted() && !self.done && self.epoch == epoch
    }
}

#[derive(Copy, Clone, Debug, PartialEq, Eq, Hash)]
pub enum Status {
    Pending,
    Complete,
    Invalidated,
}

#[derive(Clone, Debug, Hash, Default)]
pub struct ConnMon {
    /// expected remainder of the packet currently being written
    pub cur: Option<Vec<u8>>,
    pub cur_off: usize,
    /// accepted bytes not yet forming a packet (only used when an offer was not a whole packet)
    pub acc: Vec<u8>,
    pub packets: u32,
    pub connect_done: bool,
    pub disconnect_done: bool,
    pub torn: bool,
    pub connack: Option<(bool, u8)>,
    pub connack_consumed: bool,
    pub receive_max: u32,
    pub max_packet: Option<u32>,
    pub b_inflight: u32,
    pub b_rec_wait: u32,
    pub b_replayed_unacked: u32,
    pub must_replay: Vec<(u8, bool)>, // (seq, as_pubrel)
    pub last_pub_seq: Option<u8>,
    pub last_rel_order: Option<u32>,
    pub closed: bool,
    /// a disconnect() future was dropped on this connection after it had started writing
    pub disc_cancelled: bool,
    /// the client has read a complete DISCONNECT from the broker on this connection
    pub peer_disconnect_consumed: bool,
    /// this connection's CONNACK resumed the session with a Receive Maximum below the number of
    /// publishes then in flight (the broker shrank its window under the client)
    pub window_below_inflight: bool,
    /// the identifier-bearing PUBLISH / PUBREL that was accepted completely just now (until the next offer)
    pub just_done: Option<Vec<u8>>,
}

#[derive(Clone, Debug, Hash, PartialEq, Eq)]
pub struct InMsg {
    pub qos: u8,
    pub retain: bool,
    pub topic: Vec<u8>,
    pub payload: Vec<u8>,
    pub props: Vec<mr::Prop>,
}

#[derive(Clone, Debug, Hash)]
pub struct OwedAck {
    pub kind: AckKind,
    pub pid: u16,
    pub reason_success: bool,
    pub conn: usize,
}

pub struct Oracle {
    pub props: Vec<&'static str>,
    pub viol: Vec<Violation>,
    pub conns: Vec<ConnMon>,
    pub reqs: Vec<Req>,
    pub epoch: u32,
    pub connack_ok_seen: bool,
    pub client_id: Vec<u8>,
    pub rec_counter: u32,
    pub cur_op: Option<(&'static str, Option<u8>)>,
    pub expect_reject: Option<u8>,
    pub local_max_inflight: u32,
    // inbound side (C04)
    pub expect_deliver: Vec<InMsg>,
    pub in_qos2_pending: Vec<u16>,
    /// identifiers whose PUBREL found them pending and that have not been answered with a successful PUBCOMP yet
    pub pubcomp_success_due: Vec<u16>,
    pub owed_acks: Vec<OwedAck>,
    /// acknowledgements completely written: (kind, id, connection, a flush completed afterwards).
    /// Until a flush has completed the client cannot know whether they left the machine, so it may
    /// repeat them on later connections of the same session.
    pub sent_acks: Vec<(AckKind, u16, usize, bool)>,
    pub delivered: u32,
    pub rx_size: usize,
    pub cfg_clean_keep: (u16, u32),
    /// length of the most recent CONNECT offered to a transport (0 = none yet)
    pub last_connect_len: usize,
    /// what an outside observer saw, per class (twin comparisons)
    pub obs: Obs,
    /// violations flagged since the trace was last updated (shown in replays where they occur)
    pub flag_log: Vec<String>,
    /// what the application asked for, per request number (never changes once set: not part of the digest)
    pub wants: Vec<Option<Want>>,
    /// QoS 0 publishes the application asked for
    pub wants_q0: Vec<Want>,
    /// the first CONNECT of the session: every later one must say the same except for Clean Start and a
    /// broker-assigned client identifier
    pub first_connect: Option<mr::ConnectPkt>,
    /// situations this execution reached (bit i = `SITUATIONS[i]`); reported per family so that a family
    /// that never gets where it is meant to go is visible
    pub cover: u64,
    pub witness: Option<usize>,
    pub last_ping_ms: Option<u64>,
    pub pings_at_instant: u32,
}

/// Situations worth knowing a family reached at least once.
pub const SITUATIONS: [&str; 20] = [
    "inbound QoS 2 table full (8 identifiers pending)",
    "broker retransmits a pending inbound QoS 2 publish while the table is full",
    "eight publishes unresolved at the broker",
    "eight QoS 2 exchanges waiting for PUBCOMP",
    "nine or more requests live (publishes + subscribe/unsubscribe)",
    "outbound packet with a two-byte remaining length written in pieces",
    "inbound packet with a two-byte remaining length read in pieces",
    "operation cancelled between the bytes of an inbound fixed header",
    "keep-alive timeout (PINGREQ unanswered)",
    "keep-alive timeout while an outbound packet is half written",
    "outbound packet of more than 65535 bytes accepted in pieces",
    "SUBACK/UNSUBACK mixing refused and granted filters",
    "CONNECT of more than 127 bytes",
    "publish refused because the send window is full",
    "replay of several packets on a resumed connection",
    "fresh broker session while requests were in flight",
    "operation cancelled with a packet half written",
    "request retransmitted on a third connection",
    "inbound publish delivered with properties",
    "transport fault while a packet is half written",
];

pub fn situation_bit(name: &str) -> u64 {
    1u64 << SITUATIONS.iter().position(|s| *s == name).unwrap_or_else(|| panic!("machinery: unknown situation {}", name))
}

/// Observable behaviour of one execution, split into the classes whose relative order is fixed.
#[derive(Clone, Debug, Default, PartialEq, Eq)]
pub struct Obs {
    /// CONNECT, PUBLISH, SUBSCRIBE, UNSUBSCRIBE, DISCONNECT completely written, in order
    pub requests: Vec<Vec<u8>>,
    /// PUBACK / PUBREC / PUBCOMP completely written
    pub acks: Vec<Vec<u8>>,
    /// PUBREL completely written
    pub pubrels: Vec<Vec<u8>>,
    pub delivered: Vec<InMsg>,
    /// number of PINGREQs that reached the broker
    pub pings: u32,
}

impl Oracle {
    pub fn new(props: Vec<&'static str>, client_id: &str, rx_size: usize) -> Self {
        Oracle {
            props,
            viol: Vec::new(),
            conns: Vec::new(),
            reqs: Vec::new(),
            epoch: 0,
            connack_ok_seen: false,
            client_id: client_id.as_bytes().to_vec(),
            rec_counter: 0,
            cur_op: None,
            expect_reject: None,
            local_max_inflight: 8,
            expect_deliver: Vec::new(),
            in_qos2_pending: Vec::new(),
            pubcomp_success_due: Vec::new(),
            owed_acks: Vec::new(),
            sent_acks: Vec::new(),
            delivered: 0,
            rx_size,
            cfg_clean_keep: (0, 0),
            last_connect_len: 0,
            obs: Obs::default(),
            flag_log: Vec::new(),
            wants: Vec::new(),
            wants_q0: Vec::new(),
            first_connect: None,
            cover: 0,
            witness: None,
            last_ping_ms: None,
            pings_at_instant: 0,
        }
    }

    pub fn set_want(&mut self, seq: u8, w: Want) {
        let i = seq as usize;
        if self.wants.len() <= i {
            self.wants.resize(i + 1, None);
        }
        self.wants[i] = Some(w);
    }

    /// C09 inside the scheduled world: the packet on the wire says what the application asked for.
    fn check_content(&mut self, i: Option<usize>, pkt: &CPacket) {
        if !self.on("C09") {
            return;
        }
        let describe = |w: &Want| {
            format!(
                "topic {:?} payload {} bytes qos {} retain {} properties {:?} filters {:?}",
                String::from_utf8_lossy(&w.topic),
                w.payload.len(),
                w.qos,
                w.retain,
                w.props,
                w.filters.iter().map(|f| (String::from_utf8_lossy(&f.0).to_string(), f.1)).collect::<Vec<_>>()
            )
        };
        let pub_matches = |w: &Want, p: &mr::PublishPkt| {
            w.topic == p.topic && w.payload == p.payload && w.qos == p.qos && w.retain == p.retain && mr::props_equiv(&w.props, &p.props)
        };
        match (i, pkt) {
            (None, CPacket::Publish(p)) => {
                if !self.wants_q0.is_empty() && !self.wants_q0.iter().any(|w| pub_matches(w, p)) {
                    self.flag(
                        "C09",
                        "content-differs",
                        "publish0",
                        format!("QoS 0 PUBLISH on the wire ({:?}) matches no QoS 0 publish the application made", p),
                    );
                }
            }
            (Some(i), _) => {
                let Some(Some(w)) = self.wants.get(i).cloned() else { return };
                let ok = match pkt {
                    CPacket::Publish(p) => pub_matches(&w, p),
                    CPacket::Subscribe { filters, props, .. } => {
                        props.is_empty() && *filters == w.filters
                    }
                    CPacket::Unsubscribe { filters, props, .. } => {
                        props.is_empty() && *filters == w.filters.iter().map(|f| f.0.clone()).collect::<Vec<_>>()
                    }
                    _ => true,
                };
                if !ok {
                    let kname = self.reqs[i].kind.name();
                    self.flag(
                        "C09",
                        "content-differs",
                        kname,
                        format!("request {} asked for {}; on the wire: {:?}", i, describe(&w), pkt),
                    );
                }
            }
            _ => {}
        }
    }

    /// Part of an outbound packet has been accepted by the transport of connection `c`, the rest not yet.
    pub fn half_written(&self, c: usize) -> bool {
        self.conns.get(c).is_some_and(|m| !m.torn && ((m.cur.is_some() && m.cur_off > 0) || !m.acc.is_empty()))
    }

    pub fn reach(&mut self, i: usize) {
        self.cover |= 1u64 << i;
        // development aid: MCX_WITNESS=<index> turns the first execution reaching that situation into a
        // finding, so that its trace can be read (never set by the registered commands)
        static WITNESS: std::sync::OnceLock<Option<usize>> = std::sync::OnceLock::new();
        if *WITNESS.get_or_init(|| std::env::var("MCX_WITNESS").ok().and_then(|s| s.parse().ok())) == Some(i) {
            self.witness = Some(i);
        }
    }

    pub fn on(&self, p: &str) -> bool {
        self.props.iter().any(|q| *q == p)
    }

    pub fn flag(&mut self, prop: &'static str, rule: &str, ctx: &str, detail: String) {
        if !self.on(prop) {
            return;
        }
        let sig = format!("{}:{}:{}", prop, rule, ctx);
        if self.viol.iter().any(|v| v.sig == sig) {
            return;
        }
        self.flag_log.push(format!("  !! {}: {}", sig, detail));
        self.viol.push(Violation { prop, sig, detail });
    }

    /// Digest of everything that can influence a future verdict (for state keys).
    pub fn digest<H: Hasher>(&self, h: &mut H) {
        self.conns.hash(h);
        self.reqs.hash(h);
        self.epoch.hash(h);
        self.connack_ok_seen.hash(h);
        self.client_id.hash(h);
        self.rec_counter.hash(h);
        self.expect_deliver.hash(h);
        self.in_qos2_pending.hash(h);
        self.pubcomp_success_due.hash(h);
        self.owed_acks.hash(h);
        self.sent_acks.hash(h);
        // violations already found do not influence future ones, but two paths that differ in what
        // was found must not be merged before the finding is reported: it is reported immediately.
    }

    // -----------------------------------------------------------------------------------------
    // API level
    // -----------------------------------------------------------------------------------------

    pub fn new_request(&mut self, kind: ReqKind, conn: usize) -> u8 {
        let seq = self.reqs.len() as u8;
        self.reqs.push(Req {
            seq,
            kind,
            call_conn: conn,
            epoch: self.epoch,
            outcome: Outcome::InCall,
            enq: false,
            offered: false,
            pid: None,
            first: None,
            first_conn: None,
            handle: false,
            done: false,
            pubrec_ok: None,
            tx: BTreeMap::new(),
            rel: BTreeMap::new(),
            final_fail: None,
        });
        seq
    }

    pub fn op_begin(&mut self, name: &'static str, seq: Option<u8>) {
        self.cur_op = Some((name, seq));
        self.expect_reject = None;
    }

    /// `rejected` = the reason code if the operation returned `Peer(Rejected(code))`.
    pub fn op_end(&mut self, rejected: Option<u8>, cancelled: bool) {
        let name = self.cur_op.map(|c| c.0).unwrap_or("?");
        if let Some(code) = self.expect_reject.take() {
            if cancelled {
                self.flag(
                    "C18",
                    "reject-lost",
                    &format!("{}-cancelled", name),
                    format!("failing ack 0x{:02x} consumed but the operation was cancelled before reporting it", code),
                );
            } else if rejected != Some(code) {
                self.flag(
                    "C18",
                    "reject-not-surfaced",
                    name,
                    format!(
                        "ack with reason 0x{:02x} consumed by {} but it returned rejected={:?}",
                        code, name, rejected
                    ),
                );
            }
        } else if let Some(code) = rejected {
            self.flag(
                "C18",
                "reject-spurious",
                name,
                format!("{} returned rejected 0x{:02x} without a failing ack being consumed", name, code),
            );
        }
        self.cur_op = None;
    }

    // -----------------------------------------------------------------------------------------
    // Wire level, client -> broker
    // -----------------------------------------------------------------------------------------

    pub fn conn_open(&mut self) -> usize {
        self.conns.push(ConnMon {
            receive_max: 65535,
            ..Default::default()
        });
        self.conns.len() - 1
    }

    fn op_ctx(&self) -> String {
        match self.cur_op {
            Some((n, _)) => n.to_string(),
            None => "idle".to_string(),
        }
    }

    /// A buffer is offered to `write`. Checks continuity (no packet starts inside another one).
    pub fn write_offered(&mut self, c: usize, buf: &[u8]) {
        let ctx = self.op_ctx();
        if self.conns[c].torn {
            return;
        }
        if self.conns[c].disconnect_done {
            let ctx = if self.conns[c].disc_cancelled {
                format!("after-cancelled-disconnect-{}", ctx)
            } else {
                ctx.clone()
            };
            self.flag(
                "C01",
                "W4-after-disconnect",
                &ctx,
                format!("{} bytes offered after DISCONNECT was written: {}", buf.len(), mr::hex_short(buf)),
            );
        }
        if self.conns[c].cur_off == 0 && self.conns[c].cur.as_deref().is_some_and(|cur| cur != buf) {
            // nothing of the previously offered packet was accepted: the transport has not seen
            // it, so whatever is offered now starts at a packet boundary
            self.conns[c].cur = None;
        }
        if let Some(cur) = self.conns[c].cur.clone() {
            let off = self.conns[c].cur_off;
            let rest = &cur[off..];
            let n = rest.len().min(buf.len());
            if rest[..n] != buf[..n] || buf.len() > rest.len() {
                let first = mr::decode_client(buf).ok().map(|(p, _)| p.name()).unwrap_or("bytes");
                let inside = mr::decode_client(&cur).ok().map(|(p, _)| p.name()).unwrap_or("packet");
                self.flag(
                    "C01",
                    "W2-torn",
                    &format!(
                        "{}-inside-{}-during-{}{}",
                        first,
                        inside,
                        ctx,
                        if self.conns[c].disc_cancelled { "-after-cancelled-disconnect" } else { "" }
                    ),
                    format!(
                        "after {} of {} bytes of {} the next offered buffer is {} (expected continuation {})",
                        off,
                        cur.len(),
                        mr::hex_short(&cur),
                        mr::hex_short(buf),
                        mr::hex_short(rest)
                    ),
                );
                if c > 0 {
                    self.flag(
                        "C12",
                        "R4-outbound-stream-torn-on-a-later-connection",
                        &ctx,
                        format!("connection {}: after {} of {} bytes of {} the next offered buffer is {}", c, off, cur.len(), mr::hex_short(&cur), mr::hex_short(buf)),
                    );
                }
                self.conns[c].torn = true;
            }
            return;
        }
        if !self.conns[c].acc.is_empty() {
            return; // accumulate mode: judged when bytes are accepted
        }
        // at a packet boundary: the offer must start with one whole well-formed packet
        let (decoded, tolerated) = decode_lenient(buf);
        if let Some(done) = self.conns[c].just_done.take() {
            if decoded.is_err() && buf.len() < done.len() && done.ends_with(buf) {
                let (prop, kind) = match done[0] >> 4 {
                    3 if (done[0] >> 1) & 3 == 1 => ("C02", "publish1"),
                    _ => ("C03", "publish2"),
                };
                self.flag(
                    prop,
                    "Q3-partly-sent-again-on-connection",
                    kind,
                    format!("{} was accepted completely on connection {}; the next buffer offered is its last {} bytes again: {}", mr::hex_short(&done), c, buf.len(), mr::hex_short(buf)),
                );
            }
        }
        if let Some((class, why)) = tolerated {
            let ty = buf[0] >> 4;
            // the DUP bit (and nothing else) on a SUBSCRIBE / UNSUBSCRIBE: named by where it happens, so that the
            // recorded finding (on retransmissions) does not cover a first transmission
            let replayed = match &decoded {
                Ok((pkt, _)) => self.find_req_by_content(pkt).map(|i| self.reqs[i].call_conn != c),
                _ => None,
            };
            let place = match replayed {
                Some(true) => "DUP-bit-on-a-retransmission",
                Some(false) => "DUP-bit-on-the-first-transmission",
                None => "DUP-bit-on-an-unknown-request",
            };
            self.flag(
                "C01",
                "W3-malformed",
                &format!("type{}-{:?}-{}-{}", ty, class, why.replace(' ', "_"), place),
                format!("offered packet {} is malformed: {}", mr::hex_short(buf), why),
            );
        }
        match decoded {
            Ok((pkt, len)) => {
                if len != buf.len() {
                    // more than one packet in one buffer is legal; judge on accepted bytes
                    self.conns[c].acc.clear();
                    return;
                }
                self.packet_started(c, &pkt, buf);
                self.conns[c].cur = Some(buf.to_vec());
                self.conns[c].cur_off = 0;
            }
            Err(Bad::Incomplete) if matches!(buf[0] >> 4, 1 | 3 | 4 | 5 | 6 | 7 | 8 | 10 | 12 | 14 | 15) => { /* judged on accepted bytes */ }
            Err(Bad::Incomplete) => {
                // no client packet starts with this byte, however many bytes follow
                let ty = buf[0] >> 4;
                self.flag(
                    "C01",
                    "W3-malformed",
                    &format!("type{}-no-client-packet-starts-with-this-byte", ty),
                    format!("at a packet boundary the client offers {}", mr::hex_short(buf)),
                );
                if c > 0 {
                    self.flag(
                        "C12",
                        "R4-malformed-packet-on-a-later-connection",
                        &format!("type{}-no-client-packet-starts-with-this-byte", ty),
                        format!("connection {}: at a packet boundary the client offers {}: something partial was carried over", c, mr::hex_short(buf)),
                    );
                }
                self.conns[c].torn = true;
            }
            Err(Bad::Malformed(class, why)) => {
                let ty = buf[0] >> 4;
                let flags = if class == mr::MalClass::BadFlags { format!("-first-byte-{:#04x}", buf[0]) } else { String::new() };
                self.flag(
                    "C01",
                    "W3-malformed",
                    &format!("type{}-{:?}-{}{}", ty, class, why.replace(' ', "_"), flags),
                    format!("offered packet {} is malformed: {}", mr::hex_short(buf), why),
                );
                if c > 0 && ty != 1 {
                    // (the known DUP flags of replayed SUBSCRIBE / UNSUBSCRIBE are C01's business)
                    if !(matches!(ty, 8 | 10) && class == mr::MalClass::BadFlags) {
                        self.flag(
                            "C12",
                            "R4-malformed-packet-on-a-later-connection",
                            &format!("type{}-{}", ty, why.replace(' ', "_")),
                            format!("connection {}: offered packet {} is malformed ({}): something partial was carried over", c, mr::hex_short(buf), why),
                        );
                    }
                }
                if matches!(ty, 4 | 5 | 7) {
                    self.flag(
                        "C04",
                        "I4-ack-malformed",
                        &format!("type{}-{}", ty, why.replace(' ', "_")),
                        format!("the acknowledgement {} offered on connection {} is not a legal MQTT 5 packet: {}", mr::hex_short(buf), c, why),
                    );
                }
                if ty == 1 {
                    self.flag(
                        "C12",
                        "R2-connect-malformed",
                        &why.replace(' ', "_"),
                        format!("the CONNECT offered on connection {} is not a legal MQTT 5 packet ({}): {}", c, why, mr::hex_short(buf)),
                    );
                }
                if why == "packet identifier 0" {
                    self.flag(
                        "C07",
                        "id-zero",
                        &format!("type{}", ty),
                        format!("packet {} carries packet identifier 0", mr::hex_short(buf)),
                    );
                }
                self.conns[c].torn = true;
            }
        }
    }

    /// `n` bytes of the offered buffer were accepted. Returns the packets completed by them.
    pub fn write_accepted(&mut self, c: usize, buf: &[u8], n: usize) -> Vec<(CPacket, Vec<u8>)> {
        let mut out = Vec::new();
        if self.conns[c].torn {
            return out;
        }
        if let Some(cur) = self.conns[c].cur.clone() {
            self.conns[c].cur_off += n;
            if self.conns[c].cur_off >= cur.len() {
                self.conns[c].cur = None;
                self.conns[c].cur_off = 0;
                if let (Ok((pkt, _)), _) = decode_lenient(&cur) {
                    self.packet_completed(c, &pkt, &cur);
                    out.push((pkt, cur));
                }
            }
            return out;
        }
        self.conns[c].acc.extend_from_slice(&buf[..n]);
        loop {
            let acc = self.conns[c].acc.clone();
            if acc.is_empty() {
                break;
            }
            match decode_lenient(&acc).0 {
                Ok((pkt, len)) => {
                    let raw = acc[..len].to_vec();
                    self.conns[c].acc.drain(..len);
                    self.packet_started(c, &pkt, &raw);
                    self.packet_completed(c, &pkt, &raw);
                    out.push((pkt, raw));
                }
                Err(Bad::Incomplete) => break,
                Err(Bad::Malformed(class, why)) => {
                    let ty = acc[0] >> 4;
                    self.flag(
                        "C01",
                        "W3-malformed",
                        &format!("type{}-{:?}-{}", ty, class, why.replace(' ', "_")),
                        format!("written bytes {} are malformed: {}", mr::hex_short(&acc), why),
                    );
                    self.conns[c].torn = true;
                    break;
                }
            }
        }
        out
    }

    fn find_req_by_content(&self, pkt: &CPacket) -> Option<usize> {
        let seq = match pkt {
            CPacket::Publish(p) if p.qos > 0 && p.payload.is_empty() && p.topic.len() == 1 && p.topic[0].is_ascii_uppercase() => (p.topic[0] - b'A') as usize,
            CPacket::Publish(p) if p.qos > 0 => *p.payload.first()? as usize,
            CPacket::Subscribe { filters, .. } => seq_of_filter(&filters.first()?.0)?,
            CPacket::Unsubscribe { filters, .. } => seq_of_filter(filters.first()?)?,
            _ => return None,
        };
        if seq < self.reqs.len() { Some(seq) } else { None }
    }

    /// First byte of a new packet is about to be offered.
    fn packet_started(&mut self, c: usize, pkt: &CPacket, raw: &[u8]) {
        let ctx = self.op_ctx();
        let first_packet = self.conns[c].packets == 0 && !self.conns[c].connect_done;
        match pkt {
            CPacket::Connect(cp) => {
                if !first_packet {
                    self.flag("C01", "W1-second-connect", &ctx, "CONNECT is not the first packet".into());
                }
                self.conns[c].connect_done = true;
                self.last_connect_len = raw.len();
                if raw.len() > 129 {
                    self.reach(12);
                }
                match self.first_connect.clone() {
                    None => self.first_connect = Some(cp.clone()),
                    Some(f) => {
                        let mut diffs: Vec<&str> = Vec::new();
                        if f.keep_alive != cp.keep_alive {
                            diffs.push("keep-alive");
                        }
                        if f.will != cp.will {
                            diffs.push("will");
                        }
                        if f.user != cp.user {
                            diffs.push("user-name");
                        }
                        if f.pass != cp.pass {
                            diffs.push("password");
                        }
                        if !mr::props_equiv(&f.props, &cp.props) {
                            diffs.push("properties");
                        }
                        if !diffs.is_empty() {
                            let what = diffs.join("+");
                            let detail = format!(
                                "the CONNECT on connection {} differs from the session's first CONNECT in {}: first {:?}, now {:?}",
                                c, what, f, cp
                            );
                            self.flag("C12", "R3-connect-differs-from-first", &what, detail.clone());
                            self.flag("C09", "connect-differs-from-first", &what, detail);
                        }
                    }
                }
                // C05 S1 / S2
                let want_clean = !self.connack_ok_seen;
                if cp.clean_start != want_clean {
                    self.flag(
                        "C05",
                        "S1-clean-start",
                        if want_clean { "should-be-clean" } else { "should-resume" },
                        format!(
                            "CONNECT on connection {} has clean_start={} but successful CONNACK seen before = {}",
                            c, cp.clean_start, self.connack_ok_seen
                        ),
                    );
                }
                if cp.client_id != self.client_id {
                    if c > 0 {
                        // (C12: nothing a refused or broken earlier connection said may show in a later CONNECT)
                        self.flag(
                            "C12",
                            "R3-connect-differs-from-first",
                            "client-identifier",
                            format!(
                                "CONNECT on connection {} carries client id {:?}; configured / legitimately assigned is {:?}",
                                c,
                                String::from_utf8_lossy(&cp.client_id),
                                String::from_utf8_lossy(&self.client_id)
                            ),
                        );
                    }
                    self.flag(
                        "C05",
                        "S2-client-id",
                        "connect",
                        format!(
                            "CONNECT carries client id {:?}, expected {:?}",
                            String::from_utf8_lossy(&cp.client_id),
                            String::from_utf8_lossy(&self.client_id)
                        ),
                    );
                }
                // C14 Z4
                let adv = cp.props.iter().find_map(|p| match (&p.id, &p.val) {
                    (0x27, mr::PVal::U32(v)) => Some(*v),
                    _ => None,
                });
                if adv != Some(self.rx_size as u32) {
                    self.flag(
                        "C14",
                        "Z4-advertised-max",
                        "connect",
                        format!("CONNECT advertises Maximum Packet Size {:?}, receive buffer is {}", adv, self.rx_size),
                    );
                }
                return;
            }
            _ => {
                if first_packet {
                    self.flag(
                        "C01",
                        "W1-no-connect",
                        pkt.name(),
                        format!("first packet on connection {} is {}", c, pkt.name()),
                    );
                }
            }
        }
        // C14 Z1 (length against the limit of the current CONNACK)
        if let Some(max) = self.conns[c].max_packet {
            if raw.len() as u64 > max as u64 {
                self.flag(
                    "C14",
                    "Z1-oversize",
                    pkt.name(),
                    format!("{} of {} bytes offered, Maximum Packet Size is {}", pkt.name(), raw.len(), max),
                );
            }
        }
        match pkt {
            CPacket::Publish(p) if p.qos == 0 => self.check_content(None, pkt),
            _ => {}
        }
        match pkt {
            CPacket::Publish(p) if p.qos > 0 => self.request_packet_started(c, pkt, raw, true),
            CPacket::Subscribe { .. } | CPacket::Unsubscribe { .. } => {
                self.request_packet_started(c, pkt, raw, false)
            }
            CPacket::Ack(a) if a.kind == AckKind::PubRel => self.pubrel_started(c, a.pid),
            CPacket::Ack(a) => self.client_ack_started(c, a.kind, a.pid, a.reason),
            _ => {}
        }
    }

    fn request_packet_started(&mut self, c: usize, pkt: &CPacket, raw: &[u8], is_pub: bool) {
        let pid = pkt.pid().unwrap_or(0);
        let Some(i) = self.find_req_by_content(pkt) else {
            self.flag(
                "C05",
                "S3-unknown-request",
                pkt.name(),
                format!("{} on the wire does not correspond to any request made: {}", pkt.name(), mr::hex_short(raw)),
            );
            return;
        };
        let epoch = self.epoch;
        let kind = self.reqs[i].kind;
        let kname = kind.name();
        self.check_content(Some(i), pkt);
        let pkt_kind = match pkt {
            CPacket::Publish(p) if p.qos == 1 => ReqKind::Pub1,
            CPacket::Publish(_) => ReqKind::Pub2,
            CPacket::Subscribe { .. } => ReqKind::Sub,
            _ => ReqKind::Unsub,
        };
        if pkt_kind != kind {
            // QoS downgrade families handle this themselves; everywhere else it is a mismatch
            self.flag(
                "C09",
                "kind-mismatch",
                kname,
                format!("request {} ({}) appears on the wire as {:?}", i, kname, pkt_kind),
            );
        }
        // refused requests must leave no trace
        if self.reqs[i].outcome == Outcome::Refused {
            self.flag(
                "C19",
                "refused-but-sent",
                kname,
                format!("request {} was refused locally but is offered to the transport", i),
            );
            self.flag(
                "C06",
                "M2-refused-but-sent",
                kname,
                format!("request {} was refused locally but is offered to the transport", i),
            );
        }
        // C05 S3: nothing from before a fresh session
        if self.reqs[i].epoch != epoch {
            self.flag(
                "C05",
                "S3-stale-after-fresh",
                kname,
                format!("request {} from session epoch {} offered in epoch {}", i, self.reqs[i].epoch, epoch),
            );
        }
        // Q4 / X2: never after the final ack / after PUBREC
        if self.reqs[i].done {
            let (prop, rule) = match kind {
                ReqKind::Pub1 => ("C02", "Q4-after-ack"),
                ReqKind::Pub2 => ("C03", "X2-after-final"),
                _ => ("C05", "S4-after-ack"),
            };
            self.flag(prop, rule, kname, format!("request {} offered again after its final acknowledgement", i));
        } else if kind == ReqKind::Pub2 && self.reqs[i].pubrec_ok.is_some() {
            self.flag(
                "C03",
                "X2-publish-after-pubrec",
                kname,
                format!("PUBLISH of request {} offered again after its PUBREC was received", i),
            );
        }
        // C07: identifier not in use by another live request
        if self.reqs[i].pid.is_none() {
            let clash = self
                .reqs
                .iter()
                .find(|r| r.seq as usize != i && r.live(epoch) && r.pid == Some(pid))
                .map(|r| (r.seq, r.kind));
            if let Some((other, okind)) = clash {
                self.flag(
                    "C07",
                    "id-in-use",
                    &format!("{}-vs-{}", kname, okind.name()),
                    format!("request {} uses packet identifier {} still in use by request {}", i, pid, other),
                );
            }
            self.reqs[i].pid = Some(pid);
        } else if self.reqs[i].pid != Some(pid) {
            self.flag(
                "C02",
                "Q2-id-changed",
                kname,
                format!("request {} first used identifier {:?}, now {}", i, self.reqs[i].pid, pid),
            );
        }
        // Q2 / A1: byte-identical except DUP
        match self.reqs[i].first.clone() {
            None => {
                self.reqs[i].first = Some(raw.to_vec());
                self.reqs[i].first_conn = Some(c);
                if is_pub && self.reqs[i].call_conn == c {
                    if let CPacket::Publish(p) = pkt {
                        if p.dup {
                            self.flag(
                                "C02",
                                "Q2-dup-on-first",
                                kname,
                                format!("first transmission of request {} on its own connection has DUP set", i),
                            );
                        }
                    }
                }
            }
            Some(first) => {
                let mut want = first.clone();
                let retransmission = self.reqs[i].first_conn != Some(c);
                if is_pub {
                    if retransmission {
                        want[0] |= 0x08;
                    }
                }
                // bit 3 of the first byte (DUP) is excluded from the comparison for every kind; whether it
                // is legal there is the wire monitor's business (C01)
                let same = raw.len() == want.len() && raw[1..] == want[1..] && (raw[0] | 0x08) == (want[0] | 0x08);
                if !same {
                    let prop = match kind {
                        ReqKind::Pub1 => "C02",
                        ReqKind::Pub2 => "C03",
                        _ => "C05",
                    };
                    self.flag(
                        prop,
                        "Q2-bytes-differ",
                        kname,
                        format!("retransmission {} differs from first transmission {}", mr::hex_short(raw), mr::hex_short(&first)),
                    );
                    self.flag(
                        "C17",
                        "A1-bytes-differ",
                        kname,
                        format!("retransmission {} differs from first transmission {}", mr::hex_short(raw), mr::hex_short(&first)),
                    );
                } else if is_pub && retransmission && raw[0] & 0x08 == 0 {
                    let prop = if kind == ReqKind::Pub1 { "C02" } else { "C03" };
                    self.flag(
                        prop,
                        "Q2-dup-missing",
                        kname,
                        format!("retransmission of request {} on a later connection without DUP", i),
                    );
                }
            }
        }
        self.reqs[i].offered = true;
        if self.reqs.iter().filter(|r| r.live(epoch)).count() >= 9 {
            self.reach(4);
        }
        // Q5: acceptance order of PUBLISH packets within a connection
        if is_pub {
            if let Some(last) = self.conns[c].last_pub_seq {
                if (i as u8) < last {
                    let prop = if kind == ReqKind::Pub1 { "C02" } else { "C03" };
                    self.flag(
                        prop,
                        "Q5-order",
                        kname,
                        format!("request {} transmitted after request {} on connection {}", i, last, c),
                    );
                }
            }
            self.conns[c].last_pub_seq = Some(self.conns[c].last_pub_seq.map_or(i as u8, |l| l.max(i as u8)));
        }
        // S4: a request made on this connection may only start after everything owed was replayed
        if self.reqs[i].call_conn == c && !self.conns[c].must_replay.is_empty() {
            let missing: Vec<_> = self.conns[c].must_replay.clone();
            self.flag(
                "C05",
                "S4-new-before-replay",
                kname,
                format!("new request {} transmitted before replay of {:?} completed", i, missing),
            );
        }
    }

    fn pubrel_started(&mut self, c: usize, pid: u16) {
        let epoch = self.epoch;
        let found = self
            .reqs
            .iter()
            .position(|r| r.kind == ReqKind::Pub2 && r.pid == Some(pid) && r.epoch == epoch && !r.done && r.accepted());
        match found {
            Some(i) if self.reqs[i].pubrec_ok.is_some() => {
                let order = self.reqs[i].pubrec_ok.unwrap();
                // X5: replayed PUBRELs keep PUBREC order
                let replay = self.reqs[i].rel.keys().any(|k| *k != c) || self.reqs[i].rel.is_empty() && false;
                let is_replay = self.conns[c].must_replay.iter().any(|(s, rel)| *s as usize == i && *rel);
                if is_replay || replay {
                    if let Some(last) = self.conns[c].last_rel_order {
                        if order < last {
                            self.flag(
                                "C03",
                                "X5-pubrel-order",
                                "replay",
                                format!(
                                    "PUBREL for id {} (PUBREC #{}) replayed after one with PUBREC #{} on connection {}",
                                    pid, order, last, c
                                ),
                            );
                        }
                    }
                    self.conns[c].last_rel_order =
                        Some(self.conns[c].last_rel_order.map_or(order, |l| l.max(order)));
                }
            }
            Some(i) => {
                self.flag(
                    "C03",
                    "X1-pubrel-before-pubrec",
                    "publish2",
                    format!("PUBREL for request {} (id {}) without a successful PUBREC", i, pid),
                );
            }
            None => {
                // C05 S3: a PUBREL that belongs to an exchange of a session the broker has replaced
                if let Some(old) = self
                    .reqs
                    .iter()
                    .find(|r| r.kind == ReqKind::Pub2 && r.pid == Some(pid) && r.epoch != epoch && r.pubrec_ok.is_some() && !r.done)
                {
                    self.flag(
                        "C05",
                        "S3-stale-after-fresh",
                        "pubrel",
                        format!("PUBREL for request {} of session epoch {} sent in epoch {}", old.seq, old.epoch, epoch),
                    );
                }
                // A PUBREL for an exchange that ended (PUBCOMP consumed, failing PUBREC, fresh session)
                self.flag(
                    "C03",
                    "X4-pubrel-without-exchange",
                    "publish2",
                    format!("PUBREL for id {} which is not between PUBREC and PUBCOMP", pid),
                );
            }
        }
    }

    fn client_ack_started(&mut self, c: usize, kind: AckKind, pid: u16, reason: u8) {
        // C04 I2 / I4: acks must be owed, in order, per kind
        // prefer what is owed on this connection; acknowledgements owed from an earlier connection of
        // the same session are optional (the broker retransmits, which makes them owed here again)
        let pos = self
            .owed_acks
            .iter()
            .position(|o| o.kind == kind && o.pid == pid && o.conn == c)
            .or_else(|| self.owed_acks.iter().position(|o| o.kind == kind && o.pid == pid));
        match pos {
            None if self
                .sent_acks
                .iter()
                .any(|(k, p, conn, flushed)| *k == kind && *p == pid && *conn < c && !*flushed) => {}
            None => {
                self.flag(
                    "C04",
                    "I2-unowed-ack",
                    &format!("{:?}", kind),
                    format!("client sends {:?} for id {} which is not owed", kind, pid),
                );
            }
            Some(p) => {
                // arrival order among PUBACK/PUBREC (acks to PUBLISH) and among PUBCOMP
                let earlier = self.owed_acks[..p]
                    .iter()
                    .any(|o| (o.kind == AckKind::PubComp) == (kind == AckKind::PubComp) && o.conn == self.owed_acks[p].conn);
                if earlier {
                    self.flag(
                        "C04",
                        "I2-ack-order",
                        &format!("{:?}", kind),
                        format!("{:?} for id {} sent before an earlier owed acknowledgement", kind, pid),
                    );
                }
                let want_success = self.owed_acks[p].reason_success;
                let ok = if want_success { reason < 0x80 } else { reason >= 0x80 };
                if !ok {
                    self.flag(
                        "C04",
                        "I4-ack-reason",
                        &format!("{:?}", kind),
                        format!("{:?} for id {} carries reason 0x{:02x}", kind, pid, reason),
                    );
                }
                let _ = c;
            }
        }
    }

    /// The last byte of a packet was accepted by the transport: the broker has it.
    fn packet_completed(&mut self, c: usize, pkt: &CPacket, raw: &[u8]) {
        self.conns[c].packets += 1;
        self.conns[c].just_done = match pkt {
            // (kept only for packets of ordinary size: the monitor state is copied often)
            CPacket::Publish(p) if p.qos > 0 && raw.len() <= 1024 => Some(raw.to_vec()),
            CPacket::Ack(a) if a.kind == AckKind::PubRel => Some(raw.to_vec()),
            _ => None,
        };
        match pkt {
            CPacket::Disconnect { .. } => self.conns[c].disconnect_done = true,
            CPacket::Publish(p) if p.qos > 0 => {
                if let Some(i) = self.find_req_by_content(pkt) {
                    let n = {
                        let e = self.reqs[i].tx.entry(c).or_insert(0);
                        *e += 1;
                        *e
                    };
                    let kind = self.reqs[i].kind;
                    if n > 1 {
                        let prop = if kind == ReqKind::Pub1 { "C02" } else { "C03" };
                        self.flag(
                            prop,
                            "Q3-twice-on-connection",
                            kind.name(),
                            format!("request {} completely transmitted {} times on connection {}", i, n, c),
                        );
                        self.flag(
                            "C16",
                            "P3-resent",
                            kind.name(),
                            format!("request {} completely transmitted {} times on connection {}", i, n, c),
                        );
                    }
                    let replayed = self.reqs[i].call_conn != c;
                    self.conns[c].must_replay.retain(|(s, rel)| !(*s as usize == i && !*rel));
                    if self.reqs[i].tx.len() >= 3 {
                        self.reach(17);
                    }
                    // C06 M1
                    self.conns[c].b_inflight += 1;
                    if self.conns[c].b_inflight >= 8 {
                        self.reach(2);
                    }
                    if replayed {
                        self.conns[c].b_replayed_unacked += 1;
                    }
                    let rm = self.conns[c].receive_max;
                    if self.conns[c].b_inflight > rm {
                        let excess = self.conns[c].b_inflight - rm;
                        let ctx = if self.conns[c].window_below_inflight {
                            // the broker resumed the session with a window smaller than what was already in flight
                            if replayed {
                                "replay-exceeds-window-lowered-by-broker".to_string()
                            } else {
                                "new-publish-exceeds-window-lowered-by-broker".to_string()
                            }
                        } else if self.conns[c].b_rec_wait >= excess {
                            "awaiting-pubcomp".to_string()
                        } else if self.conns[c].b_replayed_unacked > 0 {
                            format!(
                                "{}{}",
                                if replayed { "replay-ignores-window" } else { "new-publish-after-resume" },
                                if self.conns[c].b_rec_wait > 0 { "+awaiting-pubcomp" } else { "" }
                            )
                        } else {
                            "other".to_string()
                        };
                        self.flag(
                            "C06",
                            "M1-receive-maximum",
                            &ctx,
                            format!(
                                "{} unresolved PUBLISH packets on connection {} with Receive Maximum {} (awaiting PUBCOMP {}, replayed unacked {})",
                                self.conns[c].b_inflight, c, rm, self.conns[c].b_rec_wait, self.conns[c].b_replayed_unacked
                            ),
                        );
                    }
                }
            }
            CPacket::Subscribe { .. } | CPacket::Unsubscribe { .. } => {
                if let Some(i) = self.find_req_by_content(pkt) {
                    let n = {
                        let e = self.reqs[i].tx.entry(c).or_insert(0);
                        *e += 1;
                        *e
                    };
                    if n > 1 {
                        let kind = self.reqs[i].kind;
                        self.flag(
                            "C05",
                            "S4-twice-on-connection",
                            kind.name(),
                            format!("request {} completely transmitted {} times on connection {}", i, n, c),
                        );
                        self.flag(
                            "C16",
                            "P3-resent",
                            kind.name(),
                            format!("request {} completely transmitted {} times on connection {}", i, n, c),
                        );
                    }
                    self.conns[c].must_replay.retain(|(s, rel)| !(*s as usize == i && !*rel));
                }
            }
            CPacket::Ack(a) if a.kind == AckKind::PubRel => {
                let epoch = self.epoch;
                if let Some(i) = self
                    .reqs
                    .iter()
                    .position(|r| r.kind == ReqKind::Pub2 && r.pid == Some(a.pid) && r.epoch == epoch && !r.done)
                {
                    let n = {
                        let e = self.reqs[i].rel.entry(c).or_insert(0);
                        *e += 1;
                        *e
                    };
                    // a second PUBREL on one connection is legal only as the answer to a duplicate PUBREC;
                    // conformant-broker families never send one
                    if n > 1 {
                        self.flag(
                            "C03",
                            "X3-pubrel-twice",
                            "publish2",
                            format!("PUBREL for request {} sent {} times on connection {}", i, n, c),
                        );
                    }
                    self.conns[c].must_replay.retain(|(s, rel)| !(*s as usize == i && *rel));
                }
            }
            CPacket::Ack(a) => {
                if a.kind == AckKind::PubComp && a.reason < 0x80 {
                    self.pubcomp_success_due.retain(|p| *p != a.pid);
                }
                let pos = self
                    .owed_acks
                    .iter()
                    .position(|o| o.kind == a.kind && o.pid == a.pid && o.conn == c)
                    .or_else(|| self.owed_acks.iter().position(|o| o.kind == a.kind && o.pid == a.pid));
                if let Some(p) = pos {
                    self.owed_acks.remove(p);
                    self.sent_acks.push((a.kind, a.pid, c, false));
                } else if let Some(e) = self.sent_acks.iter_mut().find(|e| e.0 == a.kind && e.1 == a.pid && e.2 < c && !e.3) {
                    // the permitted repetition has now been written on this connection
                    e.2 = c;
                }
            }
            _ => {}
        }
    }

    /// A flush completed on connection `c`: everything written there before has left the machine.
    pub fn flush_ok(&mut self, c: usize) {
        for e in self.sent_acks.iter_mut() {
            if e.2 == c {
                e.3 = true;
            }
        }
    }

    /// The packet has reached the broker (at the write on a pass-through transport, at the flush on
    /// a buffering one): this is what an outside observer sees.
    pub fn reached_broker(&mut self, pkt: &CPacket, raw: &[u8]) {
        match pkt {
            CPacket::Ack(a) if a.kind == AckKind::PubRel => self.obs.pubrels.push(raw.to_vec()),
            CPacket::Ack(_) => self.obs.acks.push(raw.to_vec()),
            CPacket::PingReq => {
                self.obs.pings += 1;
                // C16: keep-alive probes are paced by time; several of them at one instant is a storm
                let now = crate::clock::now_ms();
                if self.last_ping_ms == Some(now) {
                    self.pings_at_instant += 1;
                    if self.pings_at_instant >= 3 {
                        self.flag(
                            "C16",
                            "P3-pingreq-storm",
                            "same-instant",
                            format!("{} PINGREQs completed at the same instant ({} ms): keep-alive traffic is re-sent without bound", self.pings_at_instant, now),
                        );
                    }
                } else {
                    self.last_ping_ms = Some(now);
                    self.pings_at_instant = 1;
                }
            }
            CPacket::Auth { .. } => {}
            _ => self.obs.requests.push(raw.to_vec()),
        }
    }

    // -----------------------------------------------------------------------------------------
    // Wire level, broker -> client
    // -----------------------------------------------------------------------------------------

    /// The broker put a packet on the wire (it may or may not ever be read).
    pub fn broker_emit(&mut self, c: usize, pkt: &SPacket) {
        match pkt {
            SPacket::Ack { kind, reason, .. } => {
                let terminal = match kind {
                    AckKind::PubAck | AckKind::PubComp => true,
                    AckKind::PubRec => *reason >= 0x80,
                    AckKind::PubRel => false,
                };
                if *kind == AckKind::PubRec && *reason < 0x80 {
                    self.conns[c].b_rec_wait += 1;
                }
                if *kind == AckKind::PubComp {
                    self.conns[c].b_rec_wait = self.conns[c].b_rec_wait.saturating_sub(1);
                }
                if terminal {
                    self.conns[c].b_inflight = self.conns[c].b_inflight.saturating_sub(1);
                    self.conns[c].b_replayed_unacked = self.conns[c].b_replayed_unacked.saturating_sub(1);
                }
            }
            _ => {}
        }
    }

    /// The client has read the last byte of `pkt` (it processes it before its next await).
    pub fn client_consumed(&mut self, c: usize, pkt: &SPacket) {
        let epoch = self.epoch;
        match pkt {
            SPacket::ConnAck {
                session_present,
                reason,
                props,
            } => {
                self.conns[c].connack = Some((*session_present, *reason));
                self.conns[c].connack_consumed = true;
                if *reason == 0 {
                    let mut rm = 65535u32;
                    let mut bad = false;
                    // (an identifier assigned by a CONNACK that the client has to refuse is not taken over)
                    let mut new_id: Option<Vec<u8>> = None;
                    for p in props {
                        match (&p.id, &p.val) {
                            (0x21, mr::PVal::U16(v)) => {
                                if *v == 0 {
                                    bad = true
                                }
                                rm = *v as u32
                            }
                            (0x27, mr::PVal::U32(v)) => self.conns[c].max_packet = Some(*v),
                            (0x12, mr::PVal::Str(s)) => {
                                if s.len() <= 64 {
                                    new_id = Some(s.clone());
                                } else {
                                    bad = true;
                                }
                            }
                            (0x24, mr::PVal::Byte(v)) => {
                                if *v > 2 {
                                    bad = true
                                }
                            }
                            _ => {}
                        }
                    }
                    if !bad {
                        if let Some(id) = new_id {
                            self.client_id = id;
                        }
                    }
                    self.conns[c].receive_max = rm;
                    if !*session_present {
                        let ep = self.epoch;
                        if self.reqs.iter().any(|r| r.live(ep)) {
                            self.reach(15);
                        }
                        self.epoch += 1;
                        self.in_qos2_pending.clear();
                        self.pubcomp_success_due.clear();
                        self.owed_acks.clear();
                        self.sent_acks.clear();
                    }
                    if !bad {
                        self.connack_ok_seen = true;
                    } else if !*session_present {
                        // the client discarded its session before noticing the illegal value
                        self.connack_ok_seen = false;
                    }
                    if *session_present && !bad {
                        let ep = self.epoch;
                        let inflight = self.reqs.iter().filter(|r| r.live(ep) && matches!(r.kind, ReqKind::Pub1 | ReqKind::Pub2)).count() as u32;
                        self.conns[c].window_below_inflight = inflight > rm;
                        // everything live must be replayed on this connection
                        let ep = self.epoch;
                        let list: Vec<(u8, bool)> = self
                            .reqs
                            .iter()
                            .filter(|r| r.live(ep))
                            .map(|r| (r.seq, r.kind == ReqKind::Pub2 && r.pubrec_ok.is_some()))
                            .collect();
                        if list.len() >= 2 {
                            self.reach(14);
                        }
                        self.conns[c].must_replay = list;
                    }
                    // acknowledgements owed from an earlier connection of a *resumed* session may
                    // still be sent (the broker retransmits and tolerates both); a fresh session
                    // voids them (cleared above).
                }
            }
            SPacket::Disconnect { .. } => {
                self.conns[c].peer_disconnect_consumed = true;
            }
            SPacket::Ack { kind, pid, reason, .. } => match kind {
                AckKind::PubAck => {
                    if let Some(i) = self
                        .reqs
                        .iter()
                        .position(|r| r.kind == ReqKind::Pub1 && r.pid == Some(*pid) && r.live(epoch))
                    {
                        self.reqs[i].done = true;
                        if *reason >= 0x80 {
                            self.reqs[i].final_fail = Some(*reason);
                            self.expect_reject = Some(*reason);
                        }
                    }
                }
                AckKind::PubRec => {
                    if let Some(i) = self
                        .reqs
                        .iter()
                        .position(|r| r.kind == ReqKind::Pub2 && r.pid == Some(*pid) && r.live(epoch))
                    {
                        if *reason >= 0x80 {
                            if self.reqs[i].pubrec_ok.is_none() {
                                self.reqs[i].done = true;
                                self.reqs[i].final_fail = Some(*reason);
                            }
                            self.expect_reject = Some(*reason);
                        } else if self.reqs[i].pubrec_ok.is_none() {
                            self.rec_counter += 1;
                            self.reqs[i].pubrec_ok = Some(self.rec_counter);
                            let ep = self.epoch;
                            if self.reqs.iter().filter(|r| r.kind == ReqKind::Pub2 && r.live(ep) && r.pubrec_ok.is_some()).count() >= 8 {
                                self.reach(3);
                            }
                        }
                    }
                }
                AckKind::PubComp => {
                    if let Some(i) = self.reqs.iter().position(|r| {
                        r.kind == ReqKind::Pub2 && r.pid == Some(*pid) && r.live(epoch) && r.pubrec_ok.is_some()
                    }) {
                        self.reqs[i].done = true;
                        if *reason >= 0x80 {
                            self.reqs[i].final_fail = Some(*reason);
                            self.expect_reject = Some(*reason);
                        }
                    }
                }
                AckKind::PubRel => {
                    let known = self.in_qos2_pending.iter().position(|p| p == pid);
                    if let Some(k) = known {
                        self.in_qos2_pending.remove(k);
                        if !self.pubcomp_success_due.contains(pid) {
                            self.pubcomp_success_due.push(*pid);
                        }
                    }
                    self.owed_acks.push(OwedAck {
                        kind: AckKind::PubComp,
                        pid: *pid,
                        reason_success: known.is_some(),
                        conn: c,
                    });
                }
            },
            SPacket::SubAck { pid, codes, .. } | SPacket::UnsubAck { pid, codes, .. } => {
                let want = if matches!(pkt, SPacket::SubAck { .. }) {
                    ReqKind::Sub
                } else {
                    ReqKind::Unsub
                };
                // the implementation keys acknowledgements by identifier only; a conformant broker
                // sends the matching type, so match on type as well
                if let Some(i) = self
                    .reqs
                    .iter()
                    .position(|r| r.kind == want && r.pid == Some(*pid) && r.live(epoch))
                {
                    self.reqs[i].done = true;
                    if codes.iter().any(|c| *c >= 0x80) && codes.iter().any(|c| *c < 0x80) {
                        self.reach(11);
                    }
                    if let Some(code) = codes.iter().find(|c| **c >= 0x80) {
                        self.reqs[i].final_fail = Some(*code);
                        self.expect_reject = Some(*code);
                    }
                }
            }
            SPacket::Publish {
                dup: _,
                qos,
                retain,
                topic,
                pid,
                props,
                payload,
            } => {
                let msg = InMsg {
                    qos: *qos,
                    retain: *retain,
                    topic: topic.clone(),
                    payload: payload.clone(),
                    props: props.clone(),
                };
                match qos {
                    0 => self.expect_deliver.push(msg),
                    1 => {
                        let pid = pid.unwrap();
                        let in_use = self.in_qos2_pending.contains(&pid);
                        self.expect_deliver.push(msg);
                        self.owed_acks.push(OwedAck {
                            kind: AckKind::PubAck,
                            pid,
                            reason_success: !in_use,
                            conn: c,
                        });
                    }
                    _ => {
                        let pid = pid.unwrap();
                        let duplicate = self.in_qos2_pending.contains(&pid);
                        if !duplicate {
                            self.in_qos2_pending.push(pid);
                            self.expect_deliver.push(msg);
                            if self.in_qos2_pending.len() >= 8 {
                                self.reach(0);
                            }
                        } else if self.in_qos2_pending.len() >= 8 {
                            self.reach(1);
                        }
                        self.owed_acks.push(OwedAck {
                            kind: AckKind::PubRec,
                            pid,
                            reason_success: true,
                            conn: c,
                        });
                    }
                }
            }
            _ => {}
        }
    }

    /// A message was handed to the application.
    pub fn delivered(&mut self, msg: InMsg) {
        self.delivered += 1;
        if !msg.props.is_empty() {
            self.reach(18);
        }
        self.obs.delivered.push(msg.clone());
        if self.expect_deliver.is_empty() {
            self.flag(
                "C04",
                "I1-unexpected-delivery",
                &format!("qos{}", msg.qos),
                format!("message delivered that the broker did not send (or a duplicate): {:?}", msg),
            );
            return;
        }
        let want = self.expect_deliver.remove(0);
        if want != msg {
            self.flag(
                "C04",
                "I1-delivery-differs",
                &format!("qos{}", want.qos),
                format!("delivered {:?} but the broker sent {:?}", msg, want),
            );
        }
    }

    /// Called when an operation that reads ends without having delivered a pending message.
    pub fn check_no_missed_delivery(&mut self, ctx: &str) {
        if let Some(m) = self.expect_deliver.first().cloned() {
            self.flag(
                "C04",
                "I1-not-delivered",
                &format!("qos{}-{}", m.qos, ctx),
                format!("the client consumed {:?} but did not deliver it", m),
            );
            self.expect_deliver.clear();
        }
    }

    /// Acknowledgements the client must still send on connection `c`.
    pub fn owed_on(&self, c: usize) -> Vec<OwedAck> {
        self.owed_acks.iter().filter(|o| o.conn == c).cloned().collect()
    }

    pub fn expected_status(&self, seq: u8, handle_epoch: u32) -> Status {
        if handle_epoch != self.epoch {
            Status::Invalidated
        } else if self.reqs[seq as usize].done {
            Status::Complete
        } else {
            Status::Pending
        }
    }
}

/// Decode a client packet; a SUBSCRIBE/UNSUBSCRIBE whose only defect is the DUP bit in the
/// reserved flags is reported (second value) but then decoded as if the flags were legal, so that
/// the rest of the execution stays interpretable.
pub fn decode_lenient(buf: &[u8]) -> (Result<(CPacket, usize), Bad>, Option<(mr::MalClass, &'static str)>) {
    match mr::decode_client(buf) {
        Err(Bad::Malformed(mr::MalClass::BadFlags, why)) if matches!(buf[0], 0x8A | 0xAA) => {
            let mut fixed = buf.to_vec();
            fixed[0] &= !0x08;
            (mr::decode_client(&fixed), Some((mr::MalClass::BadFlags, why)))
        }
        other => (other, None),
    }
}

pub fn filter_for(seq: u8) -> String {
    format!("f/{}", seq)
}

/// The k-th filter of request `seq` (the first one identifies the request).
pub fn filter_k(seq: u8, k: usize) -> String {
    if k == 0 {
        filter_for(seq)
    } else {
        format!("f/{}/{}/+", seq, "x".repeat(k * 7))
    }
}

/// What the application asked to be sent for one request.
#[derive(Clone, Debug, PartialEq, Eq)]
pub struct Want {
    pub topic: Vec<u8>,
    pub payload: Vec<u8>,
    pub qos: u8,
    pub retain: bool,
    pub props: Vec<mr::Prop>,
    pub filters: Vec<(Vec<u8>, u8)>,
}

fn seq_of_filter(f: &[u8]) -> Option<usize> {
    let s = std::str::from_utf8(f).ok()?;
    s.strip_prefix("f/")?.parse().ok()
}
