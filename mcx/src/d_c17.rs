//! C17: transmit arena — retained packets stay intact, capacity is fully recovered.
//! Breadth-first closure over request / acknowledgement / reconnect histories per configuration.
use crate::bench::Bench;
use crate::closure::{close, ClosureCaps, Model, StepOut};
use crate::direct::hash_of;
use crate::direct2::*;
use crate::explore::Caps;
use crate::families::Tier;
use crate::mqtt_ref::{self as mr, CPacket};
use crate::report::FamilyReport;
use crate::world::{panic_text, Fp, Res, VirtualIo};
use minimq::{Connection, Publication, QoS, TopicFilter};
use serde_json::json;
use std::hash::{Hash, Hasher};

#[derive(Clone, Debug, PartialEq)]
enum Ev {
    /// kind 1 = QoS 1 publish, 2 = QoS 2 publish, 3 = subscribe, 4 = unsubscribe; payload size
    Req(u8, usize),
    Pub0(usize),
    /// final / first acknowledgement for the i-th retained entry (PUBACK, SUBACK, PUBREC success)
    Ack(usize),
    /// acknowledgement with a failure code for the i-th retained entry (PUBACK / PUBREC 0x80, SUBACK / UNSUBACK
    /// with a refused filter)
    FailRec(usize),
    /// PUBCOMP for the j-th exchange waiting for it
    Comp(usize),
    Reconnect,
}

#[derive(Clone, Debug, Hash)]
struct Live {
    kind: u8,
    pid: u16,
    tag: u8,
    first: Vec<u8>,
}

pub struct C17 {
    label: String,
    tx: usize,
    events: Vec<Ev>,
    max_live: usize,
    baseline: Vec<String>,
    /// 0: the next identifier is the smallest free one (no truncation; permutations of identifiers
    /// over list positions are all explored). n > 0: the next identifier is one above the largest
    /// live one (1 when nothing is live) and requests are not offered once that would exceed n, so
    /// identifiers increase along the retained list (what a plain counter produces between wraps).
    id_bound: u16,
    /// payloads are supplied by closures that scribble over the whole buffer they are handed
    scribble: bool,
    /// Maximum Packet Size announced by every CONNACK of the history (and of the brand-new session it is compared with)
    max_packet: Option<u32>,
    /// the session is configured with automatic QoS downgrade and every CONNACK after the first announces this
    /// Maximum QoS (the first one announces none): what was retained at a higher QoS is replayed unchanged
    resumed_max_qos: Option<u8>,
}

fn poll_until_blocked(bench: &Bench, conn: &mut Connection<'_, '_, VirtualIo>, id: usize) -> Option<Res> {
    for _ in 0..8 {
        match bench.run(conn.poll(), id) {
            None => return None,
            Some(Ok(_)) => {}
            Some(Err(e)) => return Some(Res::from_err(&e)),
        }
    }
    None
}

/// Fixed probe battery: what does this (quiescent) session accept?
fn battery(bench: &Bench, conn: &mut Connection<'_, '_, VirtualIo>, id: usize, tx: usize) -> Vec<String> {
    let mut out = Vec::new();
    let big = vec![0x77u8; tx + 8];
    // (2) as many minimal QoS 1 publishes as it takes to be refused
    let mut results = Vec::new();
    for k in 0..10u16 {
        conn.verif_session_mut().verif_set_next_packet_id(k + 1);
        let r = match bench.run(conn.publish(Publication::bytes("t", &big[..0]).qos(QoS::AtLeastOnce)), id) {
            Some(Ok(_)) => "Ok".to_string(),
            Some(Err(e)) => format!("{:?}", Res::from_pub(&e)),
            None => "blocked".to_string(),
        };
        results.push(r);
    }
    out.push(format!("ten minimal QoS 1 publishes: {:?}", results));
    for k in 0..10u16 {
        bench.push(id, &[0x40, 0x02, 0x00, (k + 1) as u8]);
    }
    let _ = poll_until_blocked(bench, conn, id);
    out.push(format!("quiescent after acknowledging them: {}", conn.session().is_publish_quiescent()));
    // (3) one subscribe
    conn.verif_session_mut().verif_set_next_packet_id(1);
    let r = match bench.run(conn.subscribe(&[TopicFilter::new("probe")], &[]), id) {
        Some(Ok(_)) => "Ok".to_string(),
        Some(Err(e)) => format!("{:?}", Res::from_err(&e)),
        None => "blocked".to_string(),
    };
    out.push(format!("subscribe: {}", r));
    bench.push(id, &[0x90, 0x04, 0x00, 0x01, 0x00, 0x00]);
    let _ = poll_until_blocked(bench, conn, id);
    // (3a) one unsubscribe
    conn.verif_session_mut().verif_set_next_packet_id(1);
    let r = match bench.run(conn.unsubscribe(&["probe"], &[]), id) {
        Some(Ok(_)) => "Ok".to_string(),
        Some(Err(e)) => format!("{:?}", Res::from_err(&e)),
        None => "blocked".to_string(),
    };
    out.push(format!("unsubscribe: {}", r));
    bench.push(id, &[0xB0, 0x04, 0x00, 0x01, 0x00, 0x00]);
    let _ = poll_until_blocked(bench, conn, id);
    // (3a') the window is still whole after them
    let mut results = Vec::new();
    for k in 0..9u16 {
        conn.verif_session_mut().verif_set_next_packet_id(k + 1);
        let r = match bench.run(conn.publish(Publication::bytes("t", &big[..0]).qos(QoS::AtLeastOnce)), id) {
            Some(Ok(_)) => "Ok".to_string(),
            Some(Err(e)) => format!("{:?}", Res::from_pub(&e)),
            None => "blocked".to_string(),
        };
        results.push(r);
    }
    out.push(format!("nine minimal QoS 1 publishes after subscribe and unsubscribe: {:?}", results));
    for k in 0..9u16 {
        bench.push(id, &[0x40, 0x02, 0x00, (k + 1) as u8]);
    }
    let _ = poll_until_blocked(bench, conn, id);
    // (3b) the largest QoS 1 payload accepted
    let mut max_ok: Option<usize> = None;
    for size in (0..=tx).rev() {
        conn.verif_session_mut().verif_set_next_packet_id(1);
        match bench.run(conn.publish(Publication::bytes("t", &big[..size]).qos(QoS::AtLeastOnce)), id) {
            Some(Ok(_)) => {
                max_ok = Some(size);
                bench.push(id, &[0x40, 0x02, 0x00, 0x01]);
                let _ = poll_until_blocked(bench, conn, id);
                break;
            }
            _ => continue,
        }
    }
    out.push(format!("largest QoS 1 payload: {:?}", max_ok));
    // (4) the largest QoS 0 payload accepted
    let mut max0: Option<usize> = None;
    for size in (0..=tx).rev() {
        if let Some(Ok(_)) = bench.run(conn.publish(Publication::bytes("t", &big[..size]).qos(QoS::AtMostOnce)), id) {
            max0 = Some(size);
            break;
        }
    }
    out.push(format!("largest QoS 0 payload: {:?}", max0));
    out.push(format!("quiescent at the end: {}", conn.session().is_publish_quiescent()));
    out
}

impl C17 {
    pub fn new(label: &str, tx: usize, sizes: &[usize], kinds: &[u8], pub0: bool, max_live: usize, fail_rec: bool, id_bound: u16) -> C17 {
        let mut events = Vec::new();
        for k in kinds {
            if *k == 3 || *k == 4 {
                events.push(Ev::Req(*k, 0));
            } else {
                for s in sizes {
                    events.push(Ev::Req(*k, *s));
                }
            }
        }
        if pub0 {
            for s in sizes {
                events.push(Ev::Pub0(*s));
            }
        }
        for i in 0..max_live {
            events.push(Ev::Ack(i));
        }
        if fail_rec {
            for i in 0..max_live {
                events.push(Ev::FailRec(i));
            }
        }
        if kinds.contains(&2) {
            for j in 0..max_live {
                events.push(Ev::Comp(j));
            }
        }
        events.push(Ev::Reconnect);
        let spec = Spec::plain(64, tx);
        let baseline = match with_session(&spec, |bench, s| {
            let Conn::Ok(mut conn, id) = connect(bench, s, &connack(false, vec![])) else { panic!("machinery: baseline connect failed") };
            battery(bench, &mut conn, id, tx)
        }) {
            Built::Ran(b) => b,
            Built::Config(e) => panic!("machinery: {}", e),
        };
        C17 { label: label.to_string(), tx, events, max_live, baseline, id_bound, scribble: false, max_packet: None, resumed_max_qos: None }
    }

    fn connack(&self, session_present: bool) -> Vec<u8> {
        let mut props: Vec<mr::Prop> = self.max_packet.map(|m| vec![mr::Prop { id: 0x27, val: mr::PVal::U32(m) }]).unwrap_or_default();
        if let (true, Some(q)) = (session_present, self.resumed_max_qos) {
            props.push(mr::Prop { id: 0x24, val: mr::PVal::Byte(q) });
        }
        connack(session_present, props)
    }

    fn spec(&self) -> Spec {
        let mut spec = Spec::plain(64, self.tx);
        spec.downgrade = self.resumed_max_qos.is_some();
        spec
    }

    /// The same configuration with automatic downgrade, under a broker that lowers its Maximum QoS when the session
    /// is resumed.
    pub fn with_resumed_max_qos(mut self, q: u8) -> C17 {
        self.resumed_max_qos = Some(q);
        self
    }

    /// The same configuration under a broker that limits the packet size (the baseline is taken under the same limit).
    pub fn with_max_packet(mut self, m: u32) -> C17 {
        self.max_packet = Some(m);
        let spec = Spec::plain(64, self.tx);
        let ca = self.connack(false);
        let tx = self.tx;
        self.baseline = match with_session(&spec, |bench, s| {
            let Conn::Ok(mut conn, id) = connect(bench, s, &ca) else { panic!("machinery: baseline connect failed") };
            battery(bench, &mut conn, id, tx)
        }) {
            Built::Ran(b) => b,
            Built::Config(e) => panic!("machinery: {}", e),
        };
        self
    }

    fn check_replay(written: &[u8], retained: &[Live], release: &[(u16, u8)], when: &str, viol: &mut Vec<(String, String)>) {
        // what must be re-sent: a PUBREL per exchange awaiting PUBCOMP (in PUBREC order) and every retained
        // packet as first transmitted, DUP bit aside (in acceptance order). The relative order of the two
        // groups, and the optional-field encoding of PUBREL, are the implementation's choice.
        let want_rel: Vec<u16> = release.iter().map(|r| r.0).collect();
        let want_ret: Vec<Vec<u8>> = retained
            .iter()
            .map(|l| {
                let mut b = l.first.clone();
                b[0] |= 0x08;
                b
            })
            .collect();
        let mut got_rel: Vec<u16> = Vec::new();
        let mut got_ret: Vec<Vec<u8>> = Vec::new();
        let mut junk: Option<Vec<u8>> = None;
        let mut off = 0;
        while off < written.len() {
            match mr::fixed_header(&written[off..]) {
                Ok(fh) if off + fh.total() <= written.len() => {
                    let mut b = written[off..off + fh.total()].to_vec();
                    off += fh.total();
                    match mr::decode_client(&b) {
                        Ok((CPacket::Ack(a), _)) if a.kind == mr::AckKind::PubRel && a.reason == 0 => got_rel.push(a.pid),
                        _ => {
                            if matches!(b[0] >> 4, 3 | 8 | 10) {
                                b[0] |= 0x08; // DUP is the one bit allowed to differ
                            }
                            got_ret.push(b);
                        }
                    }
                }
                _ => {
                    junk = Some(written[off..].to_vec());
                    break;
                }
            }
        }
        if got_rel != want_rel || got_ret != want_ret || junk.is_some() {
            let kinds: std::collections::BTreeSet<&str> = retained
                .iter()
                .map(|l| match l.kind {
                    1 => "publish1",
                    2 => "publish2",
                    4 => "unsubscribe",
                    _ => "subscribe",
                })
                .collect();
            viol.push((
                format!("C17:A1-retransmission-differs:{}-{}", when, kinds.into_iter().collect::<Vec<_>>().join("+")),
                format!(
                    "{}: a resumed connection wrote {} ; expected PUBRELs for {:?} and the first transmissions (DUP aside) [{}]",
                    when,
                    mr::hex(written),
                    want_rel,
                    want_ret.iter().map(|b| mr::hex(b)).collect::<Vec<_>>().join(" ")
                ),
            ));
        }
    }
}

impl Model for C17 {
    fn name(&self) -> String {
        self.label.clone()
    }

    fn alphabet(&self) -> Vec<String> {
        self.events.iter().map(|e| format!("{:?}", e)).collect()
    }

    fn run(&self, hist: &[u8], record: bool) -> (StepOut, Vec<String>) {
        let spec = self.spec();
        let mut trace: Vec<String> = Vec::new();
        let result = std::panic::catch_unwind(std::panic::AssertUnwindSafe(|| {
            let mut trace_in: Vec<String> = Vec::new();
            let out = with_session(&spec, |bench, s| {
                let mut viol: Vec<(String, String)> = Vec::new();
                let mut retained: Vec<Live> = Vec::new();
                let mut release: Vec<(u16, u8)> = Vec::new();
                let mut idx = 0usize;
                let mut first_conn = true;
                let mut applicable = true;
                let mut class: u64 = 0;
                let big = vec![0u8; self.tx + 8];
                let mut log = |t: &mut Vec<String>, f: &dyn Fn() -> String| {
                    if record {
                        t.push(f());
                    }
                };
                'conn: loop {
                    let ca = self.connack(!first_conn);
                    let (mut conn, id) = match connect(bench, s, &ca) {
                        Conn::Ok(c, id) => (c, id),
                        // the CONNECT itself needs arena room (property C12's recorded finding): with the arena
                        // this full the session cannot reconnect at all, so the event leads nowhere
                        Conn::Err(Res::BufferTooSmall, _) if !first_conn => return (None, viol, class),
                        _ => panic!("machinery: connect failed in C17 closure"),
                    };
                    if !first_conn {
                        let before = bench.written(id).len();
                        let _ = poll_until_blocked(bench, &mut conn, id);
                        let w = bench.written(id)[before..].to_vec();
                        log(&mut trace_in, &|| format!("reconnect (session present): client replays {}", mr::hex(&w)));
                        Self::check_replay(&w, &retained, &release, "after-reconnect", &mut viol);
                    }
                    first_conn = false;
                    while idx < hist.len() {
                        let ev = self.events[hist[idx] as usize].clone();
                        let last = idx + 1 == hist.len();
                        idx += 1;
                        // smallest identifier not in use: a counter position the real allocator reaches after wrap-around
                        let mut free_id = 1u16;
                        if self.id_bound == 0 {
                            while retained.iter().any(|l| l.pid == free_id) || release.iter().any(|r| r.0 == free_id) {
                                free_id += 1;
                            }
                        } else {
                            free_id = retained.iter().map(|l| l.pid).chain(release.iter().map(|r| r.0)).max().unwrap_or(0) + 1;
                        }
                        // the payload tag follows the identifier, so tags add no permutations of their own
                        let free_tag = free_id as u8;
                        match ev {
                            Ev::Reconnect => {
                                drop(conn);
                                continue 'conn;
                            }
                            Ev::Req(kind, size) => {
                                if retained.len() + release.len() >= self.max_live || (self.id_bound != 0 && free_id > self.id_bound) {
                                    if last {
                                        applicable = false;
                                    }
                                    continue;
                                }
                                conn.verif_session_mut().verif_set_next_packet_id(free_id);
                                let payload: Vec<u8> = vec![0x80 | free_tag; size];
                                let filter = format!("f/{}", free_tag);
                                let before = bench.written(id).len();
                                let count0 = conn.session().verif_runtime().retained;
                                let quota0 = conn.session().verif_runtime().send_quota;
                                let r: Result<(), Res> = match kind {
                                    1 | 2 if self.scribble => {
                                        let src = payload.clone();
                                        let f = move |buf: &mut [u8]| -> Result<usize, ()> {
                                            if buf.len() < src.len() {
                                                return Err(());
                                            }
                                            buf.fill(0xDD);
                                            buf[..src.len()].copy_from_slice(&src);
                                            Ok(src.len())
                                        };
                                        bench
                                            .run(conn.publish(Publication::new("t", f).qos(qos_of(kind))), id)
                                            .map(|r| r.map(|_| ()).map_err(|e| Res::from_pub(&e)))
                                            .unwrap_or(Err(Res::Cancelled))
                                    }
                                    1 | 2 => bench
                                        .run(conn.publish(Publication::bytes("t", &payload).qos(qos_of(kind))), id)
                                        .map(|r| r.map(|_| ()).map_err(|e| Res::from_pub(&e)))
                                        .unwrap_or(Err(Res::Cancelled)),
                                    4 => bench
                                        .run(conn.unsubscribe(&[filter.as_str()], &[]), id)
                                        .map(|r| r.map(|_| ()).map_err(|e| Res::from_err(&e)))
                                        .unwrap_or(Err(Res::Cancelled)),
                                    _ => bench
                                        .run(conn.subscribe(&[TopicFilter::new(&filter)], &[]), id)
                                        .map(|r| r.map(|_| ()).map_err(|e| Res::from_err(&e)))
                                        .unwrap_or(Err(Res::Cancelled)),
                                };
                                let w = bench.written(id)[before..].to_vec();
                                log(&mut trace_in, &|| format!("{:?} -> {:?}, wrote {}", self.events[hist[idx - 1] as usize], r, mr::hex(&w)));
                                match r {
                                    Ok(()) => {
                                        let ok = matches!(mr::decode_client(&w), Ok((p, n)) if n == w.len() && p.pid() == Some(free_id));
                                        if !ok {
                                            viol.push(("C17:request-bytes:undecodable".into(), format!("accepted request wrote {}", mr::hex(&w))));
                                        }
                                        // (with automatic downgrade a QoS 2 request may go out at QoS 1)
                                        let kind = match mr::decode_client(&w) {
                                            Ok((CPacket::Publish(pp), _)) if kind == 2 && pp.qos == 1 => 1,
                                            _ => kind,
                                        };
                                        retained.push(Live { kind, pid: free_id, tag: free_tag, first: w });
                                    }
                                    Err(e) => {
                                        let count1 = conn.session().verif_runtime().retained;
                                        let quota1 = conn.session().verif_runtime().send_quota;
                                        if !w.is_empty() || count1 != count0 || quota1 != quota0 {
                                            viol.push((format!("C17:refused-leaves-trace:{:?}", e), format!("request refused with {:?} wrote {} bytes, retained {} -> {}, send quota {} -> {}", e, w.len(), count0, count1, quota0, quota1)));
                                        }
                                        class = hash_of(&(class, format!("{:?}", e)));
                                    }
                                }
                            }
                            Ev::Pub0(size) => {
                                let before = bench.written(id).len();
                                let ok = if self.scribble {
                                    let src = big[..size].to_vec();
                                    let f = move |buf: &mut [u8]| -> Result<usize, ()> {
                                        if buf.len() < src.len() {
                                            return Err(());
                                        }
                                        buf.fill(0xDD);
                                        buf[..src.len()].copy_from_slice(&src);
                                        Ok(src.len())
                                    };
                                    matches!(bench.run(conn.publish(Publication::new("t", f).qos(QoS::AtMostOnce)), id), Some(Ok(_)))
                                } else {
                                    matches!(bench.run(conn.publish(Publication::bytes("t", &big[..size]).qos(QoS::AtMostOnce)), id), Some(Ok(_)))
                                };
                                let w = bench.written(id)[before..].len();
                                log(&mut trace_in, &|| format!("Pub0({}) -> ok={} wrote {} bytes", size, ok, w));
                                class = hash_of(&(class, ok));
                            }
                            Ev::Ack(i) | Ev::FailRec(i) => {
                                let fail = matches!(ev, Ev::FailRec(_));
                                if i >= retained.len() {
                                    if last {
                                        applicable = false;
                                    }
                                    continue;
                                }
                                let l = retained.remove(i);
                                let (hi, lo) = ((l.pid >> 8) as u8, l.pid as u8);
                                let before = bench.written(id).len();
                                match l.kind {
                                    1 if fail => bench.push(id, &[0x40, 0x03, hi, lo, 0x80]),
                                    1 => bench.push(id, &[0x40, 0x02, hi, lo]),
                                    2 if fail => bench.push(id, &[0x50, 0x03, hi, lo, 0x80]),
                                    2 => bench.push(id, &[0x50, 0x02, hi, lo]),
                                    4 if fail => bench.push(id, &[0xB0, 0x04, hi, lo, 0x00, 0x80]),
                                    4 => bench.push(id, &[0xB0, 0x04, hi, lo, 0x00, 0x00]),
                                    _ if fail => bench.push(id, &[0x90, 0x04, hi, lo, 0x00, 0x80]),
                                    _ => bench.push(id, &[0x90, 0x04, hi, lo, 0x00, 0x00]),
                                }
                                let e = poll_until_blocked(bench, &mut conn, id);
                                let w = bench.written(id)[before..].to_vec();
                                log(&mut trace_in, &|| format!("{:?} (id {}) -> {:?}, client wrote {}", self.events[hist[idx - 1] as usize], l.pid, e, mr::hex(&w)));
                                if l.kind == 2 && !fail {
                                    let is_rel = matches!(mr::decode_client(&w), Ok((CPacket::Ack(a), n)) if n == w.len() && a.kind == mr::AckKind::PubRel && a.pid == l.pid && a.reason == 0);
                                    if !is_rel {
                                        viol.push(("C17:pubrel-after-pubrec:differs".into(), format!("after PUBREC for {} the client wrote {}", l.pid, mr::hex(&w))));
                                    }
                                    release.push((l.pid, l.tag));
                                } else if !w.is_empty() {
                                    viol.push(("C17:unexpected-write-after-ack".into(), format!("after the acknowledgement for {} the client wrote {}", l.pid, mr::hex(&w))));
                                }
                            }
                            Ev::Comp(j) => {
                                if j >= release.len() {
                                    if last {
                                        applicable = false;
                                    }
                                    continue;
                                }
                                let (pid, _) = release.remove(j);
                                bench.push(id, &[0x70, 0x02, (pid >> 8) as u8, pid as u8]);
                                let e = poll_until_blocked(bench, &mut conn, id);
                                log(&mut trace_in, &|| format!("Comp (id {}) -> {:?}", pid, e));
                            }
                        }
                    }
                    if !applicable {
                        return (None, viol, class);
                    }
                    // ---- the state reached: key, then destructive checks on it
                    let mut free_id = 1u16;
                    if self.id_bound == 0 {
                        while retained.iter().any(|l| l.pid == free_id) || release.iter().any(|r| r.0 == free_id) {
                            free_id += 1;
                        }
                    } else {
                        free_id = retained.iter().map(|l| l.pid).chain(release.iter().map(|r| r.0)).max().unwrap_or(0) + 1;
                    }
                    conn.verif_session_mut().verif_set_next_packet_id(free_id);
                    conn.verif_session_mut().verif_poison_dead_bytes(0xA5);
                    let mut h = Fp::new();
                    conn.session().verif_fingerprint(&mut |b| h.write(b));
                    retained.hash(&mut h);
                    release.hash(&mut h);
                    conn.is_connected().hash(&mut h);
                    let key = h.finish128();
                    let rt = conn.session().verif_runtime();
                    if rt.retained != retained.len() || rt.pending_release != release.len() {
                        viol.push(("C17:slot-accounting:differs".into(), format!("client holds {} retained / {} awaiting PUBCOMP, reference model {} / {}", rt.retained, rt.pending_release, retained.len(), release.len())));
                    }
                    if retained.is_empty() && release.is_empty() {
                        if !conn.session().is_publish_quiescent() {
                            viol.push(("C17:A2-not-quiescent:after-all-acknowledged".into(), "everything was acknowledged but the session is not publish-quiescent".into()));
                        }
                        let got = battery(bench, &mut conn, id, self.tx);
                        log(&mut trace_in, &|| format!("probe battery: {:?}", got));
                        if got != self.baseline {
                            let which = got.iter().zip(self.baseline.iter()).position(|(a, b)| a != b).unwrap_or(0);
                            viol.push((
                                format!("C17:A2-capacity-differs:probe{}", which),
                                format!("after this history the session answers the probe battery {:?}, a brand-new session {:?}", got, self.baseline),
                            ));
                        }
                    } else {
                        // what would a resumed connection replay right now?
                        drop(conn);
                        match connect(bench, s, &self.connack(true)) {
                            Conn::Ok(mut conn2, id2) => {
                                let before = bench.written(id2).len();
                                let _ = poll_until_blocked(bench, &mut conn2, id2);
                                let w = bench.written(id2)[before..].to_vec();
                                log(&mut trace_in, &|| format!("shadow reconnect: client replays {}", mr::hex(&w)));
                                Self::check_replay(&w, &retained, &release, "in-this-state", &mut viol);
                            }
                            Conn::Err(Res::BufferTooSmall, _) => {}
                            _ => panic!("machinery: shadow connect failed"),
                        }
                    }
                    return (Some(key), viol, hash_of(&(class, retained.len(), release.len())));
                }
            });
            (out, trace_in)
        }));
        match result {
            Ok((Built::Ran((key, viol, class)), t)) => {
                trace = t;
                (StepOut { key, viol, class }, trace)
            }
            Ok((Built::Config(e), _)) => panic!("machinery: {}", e),
            Err(p) => {
                let text = panic_text(&p);
                let rule = if text.starts_with("machinery:") { "MACHINERY" } else { "PANIC" };
                let cls: String = text.chars().take(40).map(|c| if c.is_ascii_alphanumeric() { c } else { '_' }).collect();
                trace.push(format!("PANIC: {}", text));
                (
                    StepOut {
                        key: Some(hash_of(&text) as u128),
                        viol: vec![(format!("C17:{}:{}", rule, cls), format!("client code panicked: {}", text))],
                        class: 0xDEAD,
                    },
                    trace,
                )
            }
        }
    }
}

pub fn models(tier: Tier) -> Vec<C17> {
    let q = tier == Tier::Quick;
    let mut v = vec![
        // tiny arena, mixed kinds and sizes, acknowledgements in any order, QoS 0 traffic in between
        C17::new("C17-arena-48-mixed", 48, &[0, 7], &[1, 2, 3, 4], true, if q { 3 } else { 4 }, false, 0),
        {
            let mut m = C17::new("C17-arena-48-scribbling-payload-closures", 48, &[0, 7], &[1, 2, 3], true, 3, false, 0);
            m.scribble = true;
            m
        },
        // all eight slots, one kind: slot leaks and ordering with many entries
        C17::new("C17-arena-96-eight-slots", 96, &[0], &[1], false, 8, false, if q { 10 } else { 12 }),
        // a payload that fills the arena on its own
        C17::new("C17-arena-64-filling-payload", 64, &[1, 54], &[1, 2], true, 3, true, 0),
        // roomy arena, so that the eight in-flight slots (not the bytes) are the limit, with all request kinds
        C17::new("C17-arena-200-slot-limited-mixed-kinds", 200, &[0], &[1, 2, 3, 4], false, 3, true, 0),
        // a broker that limits the packet size below the arena: requests refused as too large leave no trace either
        C17::new("C17-arena-96-maximum-packet-size-40", 96, &[0, 7, 84], &[1, 2, 3], true, 3, false, 0).with_max_packet(40),
        // automatic downgrade configured, the broker lowers its Maximum QoS on resume: retained QoS 2 publishes are
        // replayed byte for byte all the same
        C17::new("C17-arena-96-maximum-qos-lowered-on-resume", 96, &[0, 7], &[1, 2], false, 3, false, 0).with_resumed_max_qos(1),
        // a QoS 0 publish whose fixed header is longer than that of the retained packets
        C17::new("C17-arena-400-long-header-scratch", 400, &[1, 140], &[1], true, 2, false, 0),
    ];
    // arena lengths that are odd, powers of two, one off a power of two, or smaller than a CONNECT with a will
    const ODD: [(&str, usize); 9] = [
        ("C17-arena-41", 41),
        ("C17-arena-63", 63),
        ("C17-arena-65", 65),
        ("C17-arena-127", 127),
        ("C17-arena-128", 128),
        ("C17-arena-129", 129),
        ("C17-arena-255", 255),
        ("C17-arena-256", 256),
        ("C17-arena-257", 257),
    ];
    for (k, (name, tx)) in ODD.iter().enumerate() {
        if q && k % 4 != 1 {
            continue;
        }
        v.push(C17::new(name, *tx, &[0, 7], &[1, 2, 3], true, if q { 2 } else { 3 }, false, 0));
    }
    // an arena beyond 64 KiB with a retained packet starting above offset 65535: offsets must not be narrowed
    v.push(C17::new("C17-arena-70000-retained-beyond-offset-65535", 70000, &[7, 66000], &[1, 2], false, 2, false, 0));
    if !q {
        v.push(C17::new("C17-arena-40", 40, &[0, 1, 7, 20], &[1, 2, 3], true, 3, true, 0));
        v.push(C17::new("C17-arena-200-mixed", 200, &[0, 1, 7, 100], &[1, 2, 3, 4], true, 4, true, 0));
        v.push(C17::new("C17-arena-96-six-slots-qos2", 96, &[0], &[2], false, 6, false, 8));
        v.push(C17::new("C17-arena-64-five-slots-two-sizes", 64, &[0, 7], &[1, 2], false, 5, false, 8));
        v.push(C17::new("C17-arena-600-long-headers-mixed", 600, &[0, 130, 200], &[1, 2, 3], true, 3, false, 0));
    }
    v
}

pub fn run(tier: Tier, caps: &Caps) -> Vec<FamilyReport> {
    let mut out = Vec::new();
    for m in models(tier) {
        let cc = ClosureCaps {
            max_states: if tier == Tier::Quick { 400_000 } else { 6_000_000 },
            max_depth: 64,
            wall: caps.wall,
            threads: caps.threads,
        };
        let bounds = json!({"tx_arena": m.tx, "max_live_requests": m.max_live, "identifier_bound": m.id_bound, "state_cap": cc.max_states,
            "identifiers": "before every request the identifier counter is placed on the smallest free identifier (a position the real allocator reaches after wrap-around; setter validated by C07's hook-free histories), payload tags are the smallest free tag, so the state space is finite and keys are exact (dead bytes poisoned)",
            "oracles": "A1 in every state a shadow resumed reconnect must replay exactly the first transmissions (DUP bit aside), PUBRELs first, in order; A2 in every quiescent state the probe battery must answer as on a brand-new session"});
        out.push(close(&m, "C17", &cc, bounds));
    }
    out
}

pub fn replay(name: &str, hist: &[u8]) -> Option<(StepOut, Vec<String>)> {
    for tier in [Tier::Quick, Tier::Thorough] {
        for m in models(tier) {
            if m.label == name {
                return Some(m.run(hist, true));
            }
        }
    }
    None
}

#[allow(unused)]
fn _k(_: CPacket) {}
