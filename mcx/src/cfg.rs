//! Family configuration: alphabets, bounds, environment menus.
#![allow(dead_code)]

#[derive(Copy, Clone, Debug, PartialEq, Eq, Hash, PartialOrd, Ord)]
pub enum OpK {
    Pub0,
    Pub1,
    Pub2,
    Sub,
    Unsub,
    Poll,
    Drive,
    Recv,
    Disconnect,
    /// Drop the handle without DISCONNECT.
    DropConn,
    /// `mem::forget` the handle.
    Forget,
    IntoInner,
    /// Let virtual time pass between two API calls (argument chosen separately).
    Sleep,
    /// As many locally failing requests as it takes for the packet-identifier counter to come
    /// around to an identifier that is still in flight (done with the hook setter; the setter is
    /// validated against the hook-free history in every C07 run).
    Age,
    /// `Connection::handle_disconnect()`: the application itself declares the connection lost.
    MarkDead,
}

impl OpK {
    pub fn name(&self) -> &'static str {
        match self {
            OpK::Pub0 => "publish0",
            OpK::Pub1 => "publish1",
            OpK::Pub2 => "publish2",
            OpK::Sub => "subscribe",
            OpK::Unsub => "unsubscribe",
            OpK::Poll => "poll",
            OpK::Drive => "drive",
            OpK::Recv => "recv",
            OpK::Disconnect => "disconnect",
            OpK::DropConn => "drop",
            OpK::Forget => "forget",
            OpK::IntoInner => "into_inner",
            OpK::Sleep => "sleep",
            OpK::Age => "age-identifier-counter",
            OpK::MarkDead => "handle_disconnect",
        }
    }
    pub fn ends_connection(&self) -> bool {
        matches!(self, OpK::DropConn | OpK::Forget | OpK::IntoInner)
    }
}

#[derive(Clone, Debug, Default)]
pub struct IoMenu {
    pub write_partial: bool,
    /// offer every size 1..n for buffers up to this length, else {1,2,n/2,n-1}
    pub all_partials_upto: usize,
    pub write_pending: bool,
    pub write_err: bool,
    pub write_zero: bool,
    /// once a write has answered Ok(0) the transport keeps answering Ok(0) until the API call returns
    pub write_zero_sticky: bool,
    /// a failing write / flush / read reports its error but the transport object stays usable afterwards (what a
    /// transient condition looks like): whatever the client does next shows on the wire
    pub err_keeps_open: bool,
    pub flush_pending: bool,
    pub flush_err: bool,
    pub read_partial: bool,
    pub read_pending: bool,
    pub read_err: bool,
    pub read_eof: bool,
    /// buffering transport: accepted bytes reach the broker only when a flush completes
    pub deliver_on_flush: bool,
    /// the transport never takes more than this many bytes in one write (0 = no limit): a property of
    /// the transport, not a deviation
    pub max_write: usize,
}

impl IoMenu {
    pub fn benign() -> Self {
        IoMenu {
            all_partials_upto: 16,
            ..Default::default()
        }
    }
    pub fn partial() -> Self {
        IoMenu {
            write_partial: true,
            all_partials_upto: 16,
            write_pending: true,
            flush_pending: true,
            read_partial: true,
            read_pending: true,
            ..Default::default()
        }
    }
    pub fn full() -> Self {
        IoMenu {
            write_partial: true,
            all_partials_upto: 16,
            write_pending: true,
            write_err: true,
            write_zero: false,
            write_zero_sticky: false,
            err_keeps_open: false,
            flush_pending: true,
            flush_err: true,
            read_partial: true,
            read_pending: true,
            read_err: true,
            read_eof: true,
            deliver_on_flush: false,
            max_write: 0,
        }
    }
    pub fn faults_only() -> Self {
        IoMenu {
            all_partials_upto: 16,
            write_err: true,
            flush_err: true,
            read_err: true,
            read_eof: true,
            ..Default::default()
        }
    }
}

/// A publish the broker may originate.
#[derive(Clone, Debug, PartialEq, Eq, Hash)]
pub struct InPub {
    pub qos: u8,
    pub pid: u16,
    pub retain: bool,
    pub topic: &'static str,
    pub payload: Vec<u8>,
    pub props: Vec<crate::mqtt_ref::Prop>,
}

#[derive(Clone, Debug)]
pub struct BrokerCfg {
    /// Receive Maximum values the CONNACK may carry (first = default). `None` = property absent.
    pub receive_max: Vec<Option<u16>>,
    /// Maximum Packet Size values the CONNACK may carry (first = default).
    pub max_packet: Vec<Option<u32>>,
    pub max_qos: Vec<Option<u8>>,
    pub server_keepalive: Vec<Option<u16>>,
    pub assigned_id: Vec<Option<&'static str>>,
    /// Offer "session lost" (session present = 0) even when the broker could resume.
    pub may_lose_session: bool,
    /// Offer failure reason codes in PUBACK / PUBREC / PUBCOMP / SUBACK / UNSUBACK.
    pub ack_fail: bool,
    /// Offer rejected / garbled handshakes (cost 1 each).
    pub bad_handshake: bool,
    /// Offer a server DISCONNECT as a fault (cost 1).
    pub disconnect: bool,
    /// Offer unsolicited acks for unknown identifiers (cost 1).
    pub stale_acks: bool,
    /// Offer malformed inbound data (cost 1).
    pub garbage: bool,
    /// Publishes the broker may originate, in this order.
    pub script: Vec<InPub>,
    /// The broker may retransmit (DUP) an unacknowledged publish on the same connection (cost 1).
    pub dup_retransmit: bool,
    /// Limit on how many owed packets are offered out of order at one point.
    pub reorder_window: usize,
    /// Never answer PINGREQ (keep-alive family).
    pub mute_pingresp: bool,
    /// How many owed answers may be withheld entirely (keep-alive family): PINGRESP optional.
    pub pingresp_optional: bool,
    /// Deterministic responsive broker: only the first enabled emission is ever offered.
    pub fifo: bool,
    /// When the broker starts sending scripted publishes it sends all that are enabled back to back,
    /// so that several packets sit in the transport at once.
    pub script_burst: bool,
    /// The broker ignores the client's Receive Maximum: it sends further QoS 2 publishes while eight
    /// are still unreleased (a protocol error on its side; the client's answer must still be legal).
    pub overrun: bool,
    /// The broker answers PUBREL last: every other owed packet goes out before any PUBCOMP.
    pub pubcomp_last: bool,
    /// The broker's PUBREL comes in any of its legal forms: short, with the reason code 0x92 (packet identifier
    /// not found - what a broker says that lost track of the PUBREC'd message), or with an explicit property length.
    pub pubrel_forms: bool,
    /// Reason codes a refusing PUBACK / PUBREC may carry (a choice per refusal when there are several).
    pub fail_codes: Vec<u8>,
    /// Successful acknowledgements come in any legal form (a choice per acknowledgement): shortest, explicit
    /// reason code, explicit (empty) property block, with a Reason String and two User Properties;
    /// SUBACK / UNSUBACK plain or with those properties.
    pub ack_forms: bool,
    /// Further legal CONNACK properties the client has no use for (a choice per CONNACK; see `broker::connack_extras`):
    /// 0 none, 1 Session Expiry 0, 2 Session Expiry max, 3 capability flags all 0, 4 Topic Alias Maximum,
    /// 5 Reason String + repeated User Property, 6 Response Information + Server Reference.
    pub connack_extras: Vec<u8>,
    /// Offer, as a fault (cost 1), an acknowledgement of the wrong kind carrying the identifier of a
    /// request that is still waiting (PUBACK for a SUBSCRIBE, SUBACK for a publish ...).
    pub wrong_kind_acks: bool,
    /// Offer, as a fault (cost 1), a second PUBREC - with a failure code - for a QoS 2 exchange that is
    /// already waiting for PUBCOMP.
    pub dup_pubrec_fail: bool,
}

impl Default for BrokerCfg {
    fn default() -> Self {
        BrokerCfg {
            receive_max: vec![None],
            max_packet: vec![None],
            max_qos: vec![None],
            server_keepalive: vec![None],
            assigned_id: vec![None],
            may_lose_session: false,
            ack_fail: false,
            bad_handshake: false,
            disconnect: false,
            stale_acks: false,
            garbage: false,
            script: Vec::new(),
            dup_retransmit: false,
            reorder_window: 4,
            mute_pingresp: false,
            pingresp_optional: false,
            fifo: false,
            script_burst: false,
            overrun: false,
            pubcomp_last: false,
            pubrel_forms: false,
            fail_codes: vec![0x80],
            ack_forms: false,
            connack_extras: vec![0],
            wrong_kind_acks: false,
            dup_pubrec_fail: false,
        }
    }
}

#[derive(Clone, Debug)]
pub struct Cfg {
    pub family: &'static str,
    pub rx: usize,
    pub tx: usize,
    pub client_id: &'static str,
    pub keepalive: u16,
    pub will: bool,
    pub auth: bool,
    /// with `auth`: the password is the empty byte string (user name + zero-length password is legal)
    pub empty_password: bool,
    pub expiry: u32,
    pub downgrade: bool,
    /// maximum number of API calls (connect included)
    pub max_ops: usize,
    /// maximum number of connect() calls
    pub max_conns: usize,
    /// deviation budget
    pub dev: u32,
    /// connection-level alphabet
    pub ops: Vec<OpK>,
    pub io: IoMenu,
    /// offer cancellation (cost 1) at every await point of cancel-safe operations
    pub cancel: bool,
    pub broker: BrokerCfg,
    /// payload size of publishes (first byte is the request number)
    pub payload_sizes: Vec<usize>,
    /// maximum number of requests (publish/subscribe/unsubscribe) in one execution
    pub max_reqs: usize,
    pub start_pid: Option<u16>,
    pub poison: bool,
    /// run the benign drain after the program ends
    pub drain: bool,
    /// timer may fire late by this many ms (cost 1); 0 = off
    pub late_timer_ms: u64,
    /// sleep durations (ms) for OpK::Sleep
    pub sleeps: Vec<u64>,
    /// per-operation I/O-call watchdog
    pub watchdog_calls: u32,
    /// use state-key pruning
    pub prune: bool,
    /// properties whose monitors are active
    pub props: Vec<&'static str>,
    /// compare every deviating execution with its benign twin (same program, default environment)
    pub twin: Option<Twin>,
    /// offer cancellation inside connect() as well
    pub cancel_connect: bool,
    /// when set, cancellation is offered only inside these operations
    pub cancel_only: Option<Vec<OpK>>,
    /// the benign continuation goes on until the broker has sent its whole script
    pub drain_script: bool,
    /// RETAIN flag values offered for every publish (first = default)
    pub pub_retain: Vec<bool>,
    /// publish shapes offered (index into `world::shape`): 0 = topic "t" without properties,
    /// 1 = multi-level topic with user properties, correlation data and content type,
    /// 2 = 130-byte topic (two-byte remaining length whatever the payload)
    pub pub_shapes: Vec<u8>,
    /// number of filters offered for SUBSCRIBE / UNSUBSCRIBE requests (first = default)
    pub sub_counts: Vec<usize>,
    /// will with properties and longer credentials (a CONNECT of well over 128 bytes)
    pub big_connect: bool,
    /// fixed openings of the first connection (one is chosen freely, its operations are then forced):
    /// a cheap way to start the exploration from deep states
    pub preludes: Vec<Vec<OpK>>,
    /// situations (oracle::SITUATIONS) this family exists to reach; reported when no execution does
    pub must_reach: Vec<&'static str>,
    /// `Age` may also move the identifier counter to `live identifier + d` for these distances
    /// (identifiers that alias a live one modulo a power of two)
    /// Every disconnect() / disconnect_with() of the program is dropped at its first write, before the transport
    /// took a byte of it (the connection stays usable).
    pub disconnect_dropped_unwritten: bool,
    /// Futures are dropped only at pending transport calls that have something to do, never while the client merely
    /// waits for data or a timer (so that a cancelled run and its twin live through the same timeline).
    pub no_cancel_while_idle: bool,
    pub age_aliases: Vec<u16>,
    /// Further absolute identifiers the counter may come round to (also when nothing is in flight), e.g. 1 = the
    /// counter has wrapped exactly.
    pub age_targets: Vec<u16>,
    /// after the program the application keeps polling (benign environment) until the handle is dead;
    /// for keep-alive families with a broker that never answers PINGREQ
    pub drain_until_dead: bool,
    /// `Disconnect` may also be called with a property that is not legal on a DISCONNECT (refused on a
    /// live handle, `Ok` on a dead one)
    pub disc_illegal: bool,
    /// the Disconnect operation also comes as disconnect_with(success), with a Session Expiry Interval (300 s, the
    /// maximum) asking the broker to keep the session, and with a reason code
    pub disc_forms: bool,
    /// how the payload of a publish is supplied: 0 = byte slice, 1 = a closure that scribbles over the
    /// whole buffer it is given before writing the payload at its start, 2 = `Publication::text`
    pub payload_kinds: Vec<u8>,
    /// How many of the transport error kinds a faulting read / write / flush may report (1 = always connection reset).
    pub fault_kinds: usize,
}

#[derive(Copy, Clone, Debug, PartialEq, Eq)]
pub enum Twin {
    /// C13: executions containing a cancellation vs. the uncancelled program (or the program without
    /// the cancelled request when nothing of it was enqueued or offered)
    Cancel,
    /// C15: executions with partial / pending transport answers vs. the unfragmented run
    Fragment,
    /// C15: an operation dropped at a pending write that follows a partial write of the same packet vs.
    /// the same program in which that write is pending straight away (and the operation dropped there):
    /// the two differ only in how much of the packet the transport had taken before it stalled
    DropAtWrite,
}

impl Cfg {
    pub fn base(family: &'static str) -> Self {
        Cfg {
            family,
            rx: 128,
            tx: 256,
            client_id: "mcx",
            keepalive: 0,
            will: false,
            auth: false,
            empty_password: false,
            expiry: 3600,
            downgrade: false,
            max_ops: 4,
            max_conns: 2,
            dev: 1,
            ops: vec![OpK::Pub1, OpK::Poll, OpK::DropConn],
            io: IoMenu::benign(),
            cancel: false,
            broker: BrokerCfg::default(),
            payload_sizes: vec![2],
            max_reqs: 4,
            start_pid: None,
            poison: true,
            drain: true,
            late_timer_ms: 0,
            sleeps: vec![],
            watchdog_calls: 4000,
            prune: true,
            props: vec![],
            twin: None,
            cancel_connect: true,
            cancel_only: None,
            drain_script: false,
            pub_retain: vec![false],
            pub_shapes: vec![0],
            sub_counts: vec![1],
            big_connect: false,
            preludes: Vec::new(),
            must_reach: Vec::new(),
            disconnect_dropped_unwritten: false,
            no_cancel_while_idle: false,
            age_aliases: Vec::new(),
            age_targets: Vec::new(),
            drain_until_dead: false,
            disc_illegal: false,
            disc_forms: false,
            payload_kinds: vec![0],
            fault_kinds: 1,
        }
    }
    pub fn has(&self, p: &str) -> bool {
        self.props.iter().any(|q| *q == p)
    }
}
