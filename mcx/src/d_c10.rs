//! C10: keep-alive — PINGREQ cadence and dead-peer detection follow the negotiated time.
//!
//! Breadth-first closure, per (configured keep-alive, Server Keep Alive) pair, over what can happen
//! while the application waits in `poll()`: timers firing exactly or late, inbound traffic now or
//! just before a deadline, PINGRESP now / just in time / coinciding with the deadline / never, and
//! the application interrupting the wait to publish. All deadlines in the session are relative to
//! the virtual clock, so the reachable state graph is finite and the fixpoint covers arbitrarily
//! long virtual time.
use crate::bench::Bench;
use crate::closure::{close, ClosureCaps, Model, StepOut};
use crate::clock;
use crate::direct::hash_of;
use crate::direct2::*;
use crate::explore::Caps;
use crate::families::Tier;
use crate::mqtt_ref::{self as mr, CPacket, PVal, Prop};
use crate::report::FamilyReport;
use crate::world::{panic_text, Fp, Pend, Res, VirtualIo};
use minimq::{Connection, Publication, QoS};
use serde_json::json;
use std::future::Future;
use std::hash::{Hash, Hasher};
use std::task::{Context, Poll, RawWaker, RawWakerVTable, Waker};

const ROUND_TRIP_MS: u64 = 5_000;
const STALL_MS: u64 = 3_000;

#[derive(Clone, Copy, Debug, PartialEq)]
enum Ev {
    /// the pending timer fires exactly on time
    TimerExact,
    /// the pending timer fires 1 ms late
    TimerLate,
    /// an inbound QoS 0 publish arrives now
    Inbound,
    /// time advances to 1 ms before the pending timer, then an inbound QoS 0 publish arrives
    InboundJustBeforeTimer,
    /// PINGRESP arrives now
    PingResp,
    /// time advances to 1 ms before the pending timer, then PINGRESP arrives
    PingRespJustBeforeTimer,
    /// PINGRESP arrives at the very instant of the pending timer
    PingRespAtTimer,
    /// the application drops poll(), publishes at QoS 0 and polls again
    CancelAndPublish0,
    /// the application drops poll(), publishes at QoS 1 and polls again
    CancelAndPublish1,
    /// PUBACK for the outstanding QoS 1 publish arrives now
    PubAck,
    /// the application drops poll() and polls again at once
    CancelAndRepoll,
    /// time passes until the effective keep-alive has elapsed since the last client packet
    ToKeepaliveExpiry,
    /// ... and one millisecond more
    PastKeepaliveExpiry,
    /// time passes until 1 ms before / exactly / 1 ms after the round-trip bound of the outstanding PINGREQ
    ToPingDeadlineMinus1,
    ToPingDeadline,
    ToPingDeadlinePlus1,
    /// PINGRESP arrives 1 ms before / exactly at the round-trip bound
    PingRespJustBeforeDeadline,
    PingRespAtDeadline,
    /// the pending timer fires on time and the transport then stalls the next write (typically the
    /// PINGREQ) for three seconds before accepting it
    TimerExactThenWriteStalls,
    /// the application drops poll(), makes a publish that is refused locally (illegal property) and polls again
    CancelAndRefusedPublish,
    /// the pending timer fires on time, the next flush (typically the PINGREQ's) stalls, the application
    /// drops poll() at that point and polls again at once
    TimerExactThenFlushStallsAndCancel,
    /// the application drops poll(), publishes at QoS 2 and polls again
    CancelAndPublish2,
    /// PUBREC for the outstanding QoS 2 publish arrives now (the client answers with PUBREL)
    PubRec,
    /// PUBCOMP for the outstanding QoS 2 exchange arrives now
    PubComp,
    /// an inbound QoS 1 publish arrives and is handed to the application, which stays away from poll() until the
    /// pending timer is due and then publishes at QoS 0: that call first writes the owed PUBACK - which the transport
    /// stalls for three seconds - then whatever keep-alive traffic is due, then the publish; then it polls again
    InboundQos1ThenPublishAtTimerWithStalledWrite,
    /// the first three bytes of an inbound QoS 0 publish arrive now; the rest is still under way
    InboundFirstBytes,
    /// the rest of that publish arrives now
    InboundRest,
}

impl Ev {
    fn pushes_inbound(self) -> bool {
        matches!(
            self,
            Ev::Inbound
                | Ev::InboundJustBeforeTimer
                | Ev::PingResp
                | Ev::PingRespJustBeforeTimer
                | Ev::PingRespAtTimer
                | Ev::PubAck
                | Ev::PubRec
                | Ev::PubComp
                | Ev::PingRespJustBeforeDeadline
                | Ev::PingRespAtDeadline
                | Ev::InboundQos1ThenPublishAtTimerWithStalledWrite
                | Ev::InboundFirstBytes
        )
    }
}

const EVENTS: [Ev; 27] = [
    Ev::TimerExact,
    Ev::TimerLate,
    Ev::Inbound,
    Ev::InboundJustBeforeTimer,
    Ev::PingResp,
    Ev::PingRespJustBeforeTimer,
    Ev::PingRespAtTimer,
    Ev::CancelAndPublish0,
    Ev::CancelAndPublish1,
    Ev::PubAck,
    Ev::CancelAndRepoll,
    Ev::ToKeepaliveExpiry,
    Ev::PastKeepaliveExpiry,
    Ev::ToPingDeadlineMinus1,
    Ev::ToPingDeadline,
    Ev::ToPingDeadlinePlus1,
    Ev::PingRespJustBeforeDeadline,
    Ev::PingRespAtDeadline,
    Ev::TimerExactThenWriteStalls,
    Ev::CancelAndRefusedPublish,
    Ev::TimerExactThenFlushStallsAndCancel,
    Ev::CancelAndPublish2,
    Ev::PubRec,
    Ev::PubComp,
    Ev::InboundQos1ThenPublishAtTimerWithStalledWrite,
    Ev::InboundFirstBytes,
    Ev::InboundRest,
];

pub struct C10 {
    keepalive: u16,
    server: Option<u16>,
    /// Maximum Packet Size of the CONNACK (2..5: a PINGREQ still fits, hardly anything else does)
    max_packet: Option<u32>,
}

fn noop_waker() -> Waker {
    fn clone(_: *const ()) -> RawWaker {
        RawWaker::new(std::ptr::null(), &VTABLE)
    }
    fn noop(_: *const ()) {}
    static VTABLE: RawWakerVTable = RawWakerVTable::new(clone, noop, noop, noop);
    unsafe { Waker::from_raw(RawWaker::new(std::ptr::null(), &VTABLE)) }
}

#[derive(Default, Hash, Clone, Debug)]
struct Mon {
    /// virtual time of the last completed client packet
    last_tx: u64,
    /// completion time of an unanswered PINGREQ
    ping_at: Option<u64>,
    /// the PINGRESP for the outstanding ping arrived exactly at the deadline: either outcome is fine
    coincidence: bool,
    /// milliseconds by which timers fired late since the last client packet
    late_ms: u64,
    qos1_outstanding: Option<u16>,
    dead: bool,
    pings: u32,
    /// a PINGRESP for the outstanding ping has been put on the wire towards the client
    resp_pushed: bool,
    /// a write stalled since the writes were last accounted for
    stalled: bool,
    /// the write of the outstanding PINGREQ had stalled
    ping_stalled: bool,
    /// outstanding QoS 2 publish: identifier and whether its PUBREC has been sent to the client
    qos2_outstanding: Option<(u16, bool)>,
    /// the broker is in the middle of sending a packet
    half_in: bool,
}

impl C10 {
    fn effective_ms(&self) -> u64 {
        self.server.unwrap_or(self.keepalive) as u64 * 1000
    }

    /// Account for everything the client wrote since `from`.
    fn account_writes(&self, bench: &Bench, id: usize, from: &mut usize, mon: &mut Mon, viol: &mut Vec<(String, String)>, waiting: bool) {
        let w = bench.written(id);
        let mut off = *from;
        let now = clock::now() / clock::TICKS_PER_MS;
        let e = self.effective_ms();
        while off < w.len() {
            match mr::decode_client(&w[off..]) {
                Ok((p, n)) => {
                    off += n;
                    let gap = now.saturating_sub(mon.last_tx);
                    if waiting && e > 0 && gap > e + mon.late_ms {
                        let ctx = if mon.ping_at.is_some() { if e < ROUND_TRIP_MS { "while-awaiting-pingresp-keepalive-below-round-trip-bound" } else { "while-awaiting-pingresp" } } else { "idle" };
                        viol.push((
                            format!("C10:G1-gap-exceeds-keepalive:{}", ctx),
                            format!("{} completed {} ms after the previous client packet; effective keep-alive {} ms (timers late by {} ms)", p.name(), gap, e, mon.late_ms),
                        ));
                    }
                    if matches!(p, CPacket::PingReq) {
                        mon.pings += 1;
                        if mon.ping_at.is_some() && mon.resp_pushed && bench.inbound_left(id) == 0 {
                            // the answer to the previous ping was consumed earlier in this same poll
                            mon.ping_at = None;
                            mon.resp_pushed = false;
                        }
                        if e == 0 {
                            viol.push(("C10:G0-ping-with-keepalive-zero:pingreq".into(), "a PINGREQ was sent although the effective keep-alive is 0".into()));
                        }
                        // (a second PINGREQ while one is unanswered is legal MQTT and not forbidden by the property)
                        if mon.ping_at.is_none() {
                            // the round-trip bound runs from the oldest unanswered PINGREQ
                            mon.ping_stalled = mon.stalled;
                            mon.ping_at = Some(now);
                            mon.coincidence = false;
                            mon.resp_pushed = false;
                        }
                    }
                    if let CPacket::Publish(pp) = &p {
                        if pp.qos == 1 {
                            mon.qos1_outstanding = pp.pid;
                        }
                        if pp.qos == 2 {
                            mon.qos2_outstanding = pp.pid.map(|p| (p, false));
                        }
                    }
                    mon.last_tx = now;
                    mon.late_ms = 0;
                    mon.stalled = false;
                }
                Err(_) => {
                    viol.push(("C10:wire:undecodable".into(), format!("client wrote {}", mr::hex(&w[off..]))));
                    off = w.len();
                }
            }
        }
        *from = off;
    }
}

enum After {
    /// (timer due time in ticks)
    InboundThenPub(u64),
    RefusedPub,
    Pub(u8),
    Repoll,
    End,
    Dead(Res),
    Again,
}

impl Model for C10 {
    fn name(&self) -> String {
        match self.max_packet {
            None => format!("C10-keepalive-{}-server-{:?}", self.keepalive, self.server),
            Some(m) => format!("C10-keepalive-{}-server-{:?}-maximum-packet-size-{}", self.keepalive, self.server, m),
        }
    }

    fn alphabet(&self) -> Vec<String> {
        EVENTS.iter().map(|e| format!("{:?}", e)).collect()
    }

    fn run(&self, hist: &[u8], record: bool) -> (StepOut, Vec<String>) {
        let mut spec = Spec::plain(64, 128);
        spec.keepalive = self.keepalive;
        let result = std::panic::catch_unwind(std::panic::AssertUnwindSafe(|| {
            let mut trace: Vec<String> = Vec::new();
            let out = with_session(&spec, |bench, s| {
                let mut viol: Vec<(String, String)> = Vec::new();
                let mut props = self.server.map(|k| vec![Prop { id: 0x13, val: PVal::U16(k) }]).unwrap_or_default();
                if let Some(m) = self.max_packet {
                    props.push(Prop { id: 0x27, val: PVal::U32(m) });
                }
                let Conn::Ok(mut conn, id) = connect(bench, s, &connack(false, props)) else { panic!("machinery: connect failed") };
                let mut mon = Mon { last_tx: clock::now() / clock::TICKS_PER_MS, ..Default::default() };
                let mut seen = bench.written(id).len();
                let mut idx = 0usize;
                let mut applicable = true;
                let e_ms = self.effective_ms();
                let waker = noop_waker();
                let mut class: u64 = 0;
                macro_rules! log {
                    ($($a:tt)*) => { if record { trace.push(format!($($a)*)); } };
                }
                let now_ms = || clock::now() / clock::TICKS_PER_MS;
                let mut flush_cancel_armed = false;
                'outer: loop {
                    let after: After = {
                        let mut fut = Box::pin(conn.poll());
                        let mut cx = Context::from_waker(&waker);
                        let mut res: After;
                        loop {
                            clock::clear_wake();
                            bench.sh.borrow_mut().pending = Pend::None;
                            bench.sh.borrow_mut().op_calls = 0;
                            match fut.as_mut().poll(&mut cx) {
                                Poll::Ready(r) => {
                                    res = match r {
                                        Ok(Some(_)) => After::Again,
                                        Ok(None) => After::Again,
                                        Err(e) => After::Dead(Res::from_err(&e)),
                                    };
                                    break;
                                }
                                Poll::Pending => {
                                    if bench.sh.borrow().pending == Pend::Chosen && flush_cancel_armed {
                                        // the flush stalled by TimerExactThenFlushStallsAndCancel: the application
                                        // drops the future here and polls again
                                        flush_cancel_armed = false;
                                        log!("the flush stalls; the application drops poll() and polls again at {} ms", now_ms());
                                        res = After::Repoll;
                                        break;
                                    }
                                    if bench.sh.borrow().pending == Pend::Chosen {
                                        // the write stalled by TimerExactThenWriteStalls: three seconds pass
                                        clock::set(clock::now() + STALL_MS * clock::TICKS_PER_MS);
                                        // the keep-alive cadence is promised on a transport that accepts writes
                                        mon.late_ms += STALL_MS;
                                        mon.stalled = true;
                                        log!("the transport accepts the write after {} ms, at {} ms", STALL_MS, now_ms());
                                        continue;
                                    }
                                    // blocked: nothing to read; a timer may be registered
                                    bench.sh.borrow_mut().stall_next_write = false;
                                    bench.sh.borrow_mut().stall_next_flush = false;
                                    flush_cancel_armed = false;
                                    if bench.sh.borrow().pending != Pend::ReadEmpty {
                                        panic!("machinery: poll pending without a blocked read");
                                    }
                                    self.account_writes(bench, id, &mut seen, &mut mon, &mut viol, true);
                                    let wake = clock::wake();
                                    let now = now_ms();
                                    // standing obligations while blocked
                                    if e_ms > 0 && now.saturating_sub(mon.last_tx) > e_ms + mon.late_ms {
                                        let ctx = if mon.ping_at.is_some() { if e_ms < ROUND_TRIP_MS { "while-awaiting-pingresp-keepalive-below-round-trip-bound" } else { "while-awaiting-pingresp" } } else { "idle" };
                                        viol.push((
                                            format!("C10:G1-gap-exceeds-keepalive:{}", ctx),
                                            format!("still waiting {} ms after the previous client packet with nothing sent; effective keep-alive {} ms", now - mon.last_tx, e_ms),
                                        ));
                                    }
                                    if let Some(p) = mon.ping_at {
                                        if now >= p + ROUND_TRIP_MS && !mon.coincidence {
                                            viol.push(("C10:G2-no-disconnect:unanswered-pingreq".into(), format!("PINGREQ completed at {} ms is unanswered at {} ms and poll keeps waiting", p, now)));
                                        }
                                    }
                                    if !viol.is_empty() {
                                        res = After::End;
                                        break;
                                    }
                                    if idx >= hist.len() {
                                        res = After::End;
                                        break;
                                    }
                                    let ev = EVENTS[hist[idx] as usize];
                                    let last = idx + 1 == hist.len();
                                    idx += 1;
                                    let wake_ms = wake.map(|t| t / clock::TICKS_PER_MS);
                                    let mut na = false;
                                    match ev {
                                        // a broker sends one packet after the other
                                        _ if mon.half_in && ev.pushes_inbound() => na = true,
                                        Ev::InboundFirstBytes => {
                                            bench.push(id, &[0x30, 0x05, 0x00]);
                                            mon.half_in = true;
                                            log!("the first three bytes of an inbound QoS 0 publish at {} ms", now_ms());
                                        }
                                        Ev::InboundRest => {
                                            if mon.half_in {
                                                bench.push(id, &[0x01, b'a', 0x00, 0x55]);
                                                mon.half_in = false;
                                                log!("the rest of the inbound publish at {} ms", now_ms());
                                            } else {
                                                na = true;
                                            }
                                        }
                                        Ev::TimerExactThenFlushStallsAndCancel => match wake {
                                            Some(t) if t > clock::now() => {
                                                clock::set(t);
                                                bench.sh.borrow_mut().stall_next_flush = true;
                                                flush_cancel_armed = true;
                                                log!("{:?}: clock -> {} ms, next flush will stall", ev, now_ms());
                                            }
                                            _ => na = true,
                                        },
                                        Ev::TimerExactThenWriteStalls => match wake {
                                            Some(t) if t > clock::now() => {
                                                clock::set(t);
                                                bench.sh.borrow_mut().stall_next_write = true;
                                                log!("{:?}: clock -> {} ms, next write will stall", ev, now_ms());
                                            }
                                            _ => na = true,
                                        },
                                        Ev::TimerExact | Ev::TimerLate => match wake {
                                            Some(t) if t > clock::now() => {
                                                let late = if ev == Ev::TimerLate { 1 } else { 0 };
                                                clock::set(t + late * clock::TICKS_PER_MS);
                                                mon.late_ms += late;
                                                log!("{:?}: clock -> {} ms", ev, now_ms());
                                            }
                                            Some(_) => {
                                                log!("{:?}: timer already due, re-poll", ev);
                                            }
                                            None => na = true,
                                        },
                                        Ev::Inbound => {
                                            bench.push(id, &[0x30, 0x05, 0x00, 0x01, b'a', 0x00, 0x55]);
                                            log!("Inbound QoS 0 publish at {} ms", now_ms());
                                        }
                                        Ev::InboundJustBeforeTimer => match wake {
                                            Some(t) if t > clock::now() + clock::TICKS_PER_MS => {
                                                clock::set(t - clock::TICKS_PER_MS);
                                                bench.push(id, &[0x30, 0x05, 0x00, 0x01, b'a', 0x00, 0x55]);
                                                log!("Inbound QoS 0 publish 1 ms before the timer, at {} ms", now_ms());
                                            }
                                            _ => na = true,
                                        },
                                        Ev::PingResp => {
                                            if mon.ping_at.is_some() {
                                                bench.push(id, &[0xD0, 0x00]);
                                                mon.resp_pushed = true;
                                                if let Some(p) = mon.ping_at {
                                                    if now >= p + ROUND_TRIP_MS {
                                                        mon.coincidence = true;
                                                    }
                                                }
                                                log!("PINGRESP at {} ms", now_ms());
                                            } else {
                                                na = true;
                                            }
                                        }
                                        Ev::PingRespJustBeforeTimer => match (wake, mon.ping_at) {
                                            (Some(t), Some(_)) if t > clock::now() + clock::TICKS_PER_MS => {
                                                clock::set(t - clock::TICKS_PER_MS);
                                                bench.push(id, &[0xD0, 0x00]);
                                                mon.resp_pushed = true;
                                                log!("PINGRESP 1 ms before the timer, at {} ms", now_ms());
                                            }
                                            _ => na = true,
                                        },
                                        Ev::PingRespAtTimer => match (wake, mon.ping_at) {
                                            (Some(t), Some(p)) if t > clock::now() => {
                                                clock::set(t);
                                                bench.push(id, &[0xD0, 0x00]);
                                                mon.resp_pushed = true;
                                                if t / clock::TICKS_PER_MS >= p + ROUND_TRIP_MS {
                                                    mon.coincidence = true;
                                                }
                                                log!("PINGRESP exactly at the timer, at {} ms", now_ms());
                                            }
                                            _ => na = true,
                                        },
                                        Ev::PubAck => match mon.qos1_outstanding {
                                            Some(pid) => {
                                                bench.push(id, &[0x40, 0x02, (pid >> 8) as u8, pid as u8]);
                                                mon.qos1_outstanding = None;
                                                log!("PUBACK at {} ms", now_ms());
                                            }
                                            None => na = true,
                                        },
                                        Ev::CancelAndPublish0 => {
                                            res = After::Pub(0);
                                            break;
                                        }
                                        Ev::CancelAndPublish1 => {
                                            if mon.qos1_outstanding.is_some() {
                                                na = true;
                                            } else {
                                                res = After::Pub(1);
                                                break;
                                            }
                                        }
                                        Ev::CancelAndRefusedPublish => {
                                            res = After::RefusedPub;
                                            break;
                                        }
                                        Ev::CancelAndPublish2 => {
                                            if mon.qos2_outstanding.is_some() {
                                                na = true;
                                            } else {
                                                res = After::Pub(2);
                                                break;
                                            }
                                        }
                                        Ev::PubRec => match mon.qos2_outstanding {
                                            Some((pid, false)) => {
                                                bench.push(id, &[0x50, 0x02, (pid >> 8) as u8, pid as u8]);
                                                mon.qos2_outstanding = Some((pid, true));
                                                log!("PUBREC at {} ms", now_ms());
                                            }
                                            _ => na = true,
                                        },
                                        Ev::PubComp => match mon.qos2_outstanding {
                                            Some((pid, true)) => {
                                                bench.push(id, &[0x70, 0x02, (pid >> 8) as u8, pid as u8]);
                                                mon.qos2_outstanding = None;
                                                log!("PUBCOMP at {} ms", now_ms());
                                            }
                                            _ => na = true,
                                        },
                                        Ev::CancelAndRepoll => {
                                            res = After::Repoll;
                                            break;
                                        }
                                        Ev::InboundQos1ThenPublishAtTimerWithStalledWrite => match wake {
                                            // (under a Maximum Packet Size of 2..4 the PUBACK itself cannot be sent)
                                            Some(t) if t > clock::now() && mon.ping_at.is_none() && e_ms > 0 && self.max_packet.is_none() => {
                                                bench.push(id, &[0x32, 0x07, 0x00, 0x01, b'a', 0x00, 0x07, 0x00, 0x55]);
                                                log!("Inbound QoS 1 publish at {} ms", now_ms());
                                                res = After::InboundThenPub(t);
                                                break;
                                            }
                                            _ => na = true,
                                        },
                                        Ev::ToKeepaliveExpiry | Ev::PastKeepaliveExpiry => {
                                            let extra = if ev == Ev::PastKeepaliveExpiry { 1 } else { 0 };
                                            let target = (mon.last_tx + e_ms + extra) * clock::TICKS_PER_MS;
                                            let jumps_timer = wake.is_some_and(|t| t > clock::now() && target > t);
                                            if e_ms > 0 && target > clock::now() && !jumps_timer {
                                                clock::set(target);
                                                log!("{:?}: clock -> {} ms", ev, now_ms());
                                            } else {
                                                na = true;
                                            }
                                        }
                                        Ev::ToPingDeadlineMinus1 | Ev::ToPingDeadline | Ev::ToPingDeadlinePlus1 | Ev::PingRespJustBeforeDeadline | Ev::PingRespAtDeadline => match mon.ping_at {
                                            Some(p) => {
                                                let bound = p + ROUND_TRIP_MS;
                                                let target_ms = match ev {
                                                    Ev::ToPingDeadlineMinus1 | Ev::PingRespJustBeforeDeadline => bound - 1,
                                                    Ev::ToPingDeadlinePlus1 => bound + 1,
                                                    _ => bound,
                                                };
                                                let target = target_ms * clock::TICKS_PER_MS;
                                                let jumps_timer = wake.is_some_and(|t| t > clock::now() && target > t);
                                                if target > clock::now() && !mon.resp_pushed && !jumps_timer {
                                                    clock::set(target);
                                                    if matches!(ev, Ev::PingRespJustBeforeDeadline | Ev::PingRespAtDeadline) {
                                                        bench.push(id, &[0xD0, 0x00]);
                                                        mon.resp_pushed = true;
                                                        if ev == Ev::PingRespAtDeadline {
                                                            mon.coincidence = true;
                                                        }
                                                    }
                                                    log!("{:?}: clock -> {} ms", ev, now_ms());
                                                } else {
                                                    na = true;
                                                }
                                            }
                                            None => na = true,
                                        },
                                    }
                                    let _ = wake_ms;
                                    if na {
                                        if last {
                                            applicable = false;
                                            res = After::End;
                                            break;
                                        }
                                        panic!("machinery: inapplicable event inside a history");
                                    }
                                }
                            }
                        }
                        res
                    };
                    bench.sh.borrow_mut().stall_next_write = false;
                    bench.sh.borrow_mut().stall_next_flush = false;
                    match after {
                        After::Again => {
                            self.account_writes(bench, id, &mut seen, &mut mon, &mut viol, true);
                            // a consumed PINGRESP clears the outstanding ping
                            if mon.ping_at.is_some() && mon.resp_pushed && bench.inbound_left(id) == 0 && conn.session().verif_runtime().ping_timeout_ticks.is_none() {
                                log!("ping answered (deadline cleared) at {} ms", now_ms());
                                mon.ping_at = None;
                                mon.resp_pushed = false;
                            }
                            continue 'outer;
                        }
                        After::Dead(r) => {
                            self.account_writes(bench, id, &mut seen, &mut mon, &mut viol, true);
                            let now = now_ms();
                            log!("poll -> Err({:?}) at {} ms", r, now);
                            mon.dead = true;
                            class = hash_of(&(class, format!("{:?}", r)));
                            if r != Res::Disconnected {
                                viol.push((format!("C10:unexpected-error:{:?}", r), format!("poll returned {:?}", r)));
                            } else {
                                match mon.ping_at {
                                    Some(p) => {
                                        if now < p + ROUND_TRIP_MS {
                                            let ctx = if mon.ping_stalled { "bound-counted-from-before-a-stalled-pingreq-write" } else { "before-round-trip-bound" };
                                            viol.push((format!("C10:G2-early-disconnect:{}", ctx), format!("PINGREQ completed at {} ms, disconnected already at {} ms (bound {} ms)", p, now, ROUND_TRIP_MS)));
                                        }
                                    }
                                    None => {
                                        viol.push(("C10:G3-disconnect-despite-pingresp:no-ping-outstanding".into(), format!("poll reported disconnected at {} ms although no PINGREQ is unanswered", now)));
                                    }
                                }
                            }
                            if conn.is_connected() {
                                viol.push(("C10:dead-handle-alive:after-timeout".into(), "handle still connected after the keep-alive timeout".into()));
                            }
                            break 'outer;
                        }
                        After::Pub(q) => {
                            log!("application drops poll() and publishes at QoS {} at {} ms", q, now_ms());
                            // keep the identifier counter from growing without bound (setter validated under C07)
                            conn.verif_session_mut().verif_set_next_packet_id(1);
                            let r = bench_publish(bench, &mut conn, id, q);
                            if let Err(e) = r {
                                log!("publish -> {:?}", e);
                                if e.fatal() {
                                    mon.dead = true;
                                    break 'outer;
                                }
                            }
                            self.account_writes(bench, id, &mut seen, &mut mon, &mut viol, false);
                            continue 'outer;
                        }
                        After::InboundThenPub(t) => {
                            // the message is handed over by a fresh poll(); its PUBACK stays queued
                            let got = {
                                let mut fut = Box::pin(conn.poll());
                                let mut cx = Context::from_waker(&waker);
                                bench.sh.borrow_mut().op_calls = 0;
                                match fut.as_mut().poll(&mut cx) {
                                    Poll::Ready(Ok(Some(_))) => true,
                                    Poll::Ready(Ok(None)) => false,
                                    Poll::Ready(Err(e)) => panic!("machinery: poll failed on an inbound publish: {:?}", Res::from_err(&e)),
                                    Poll::Pending => panic!("machinery: poll blocked with an inbound publish waiting"),
                                }
                            };
                            if !got {
                                viol.push(("C10:inbound-not-delivered:qos1".into(), "poll() did not hand over the inbound QoS 1 publish".into()));
                                break 'outer;
                            }
                            self.account_writes(bench, id, &mut seen, &mut mon, &mut viol, false);
                            if t > clock::now() {
                                clock::set(t);
                            }
                            log!("the application stays away from poll() until {} ms, then publishes at QoS 0; the first write of that call stalls", now_ms());
                            bench.sh.borrow_mut().stall_next_write = true;
                            let r = {
                                let mut fut = Box::pin(conn.publish(Publication::bytes("t", b"x")));
                                let mut cx = Context::from_waker(&waker);
                                loop {
                                    bench.sh.borrow_mut().pending = Pend::None;
                                    bench.sh.borrow_mut().op_calls = 0;
                                    match fut.as_mut().poll(&mut cx) {
                                        Poll::Ready(Ok(_)) => break Ok(()),
                                        Poll::Ready(Err(e)) => break Err(Res::from_pub(&e)),
                                        Poll::Pending if bench.sh.borrow().pending == Pend::Chosen => {
                                            clock::set(clock::now() + STALL_MS * clock::TICKS_PER_MS);
                                            mon.late_ms += STALL_MS;
                                            mon.stalled = true;
                                            log!("the transport accepts the write after {} ms, at {} ms", STALL_MS, now_ms());
                                        }
                                        Poll::Pending => panic!("machinery: publish blocked on a writable transport"),
                                    }
                                }
                            };
                            bench.sh.borrow_mut().stall_next_write = false;
                            if let Err(e) = r {
                                log!("publish -> {:?}", e);
                                if e.fatal() {
                                    mon.dead = true;
                                    break 'outer;
                                }
                            }
                            self.account_writes(bench, id, &mut seen, &mut mon, &mut viol, false);
                            continue 'outer;
                        }
                        After::RefusedPub => {
                            log!("application drops poll() and makes a publish that is refused locally at {} ms", now_ms());
                            let before = bench.written(id).len();
                            let bad = [minimq::Property::ServerReference("x")];
                            let r = {
                                let fut = conn.publish(Publication::bytes("t", b"x").properties(&bad));
                                let mut fut = Box::pin(fut);
                                let mut cx = Context::from_waker(&waker);
                                bench.sh.borrow_mut().op_calls = 0;
                                match fut.as_mut().poll(&mut cx) {
                                    Poll::Ready(Ok(_)) => Ok(()),
                                    Poll::Ready(Err(e)) => Err(Res::from_pub(&e)),
                                    Poll::Pending => panic!("machinery: publish blocked on a writable transport"),
                                }
                            };
                            // (an earlier half-finished packet may be completed by the call; the refused request itself writes nothing)
                            let _ = before;
                            if r != Err(Res::InvalidRequest) {
                                if let Err(e) = r {
                                    if e.fatal() {
                                        mon.dead = true;
                                        break 'outer;
                                    }
                                }
                            }
                            self.account_writes(bench, id, &mut seen, &mut mon, &mut viol, false);
                            continue 'outer;
                        }
                        After::Repoll => {
                            log!("application drops poll() and polls again at {} ms", now_ms());
                            continue 'outer;
                        }
                        After::End => break 'outer,
                    }
                }
                if !applicable {
                    return (None, viol, class);
                }
                // state key: real session (deadlines relative to now) + monitor, all relative
                let now = now_ms();
                conn.verif_session_mut().verif_set_next_packet_id(1);
                let mut h = Fp::new();
                conn.session().verif_fingerprint(&mut |b| h.write(b));
                conn.is_connected().hash(&mut h);
                if e_ms > 0 {
                    now.saturating_sub(mon.last_tx).hash(&mut h);
                }
                mon.ping_at.map(|p| now - p).hash(&mut h);
                mon.coincidence.hash(&mut h);
                mon.resp_pushed.hash(&mut h);
                mon.ping_stalled.hash(&mut h);
                mon.late_ms.hash(&mut h);
                mon.qos1_outstanding.is_some().hash(&mut h);
                mon.qos2_outstanding.map(|q| q.1).hash(&mut h);
                mon.dead.hash(&mut h);
                mon.half_in.hash(&mut h);
                clock::wake().map(|t| t.saturating_sub(clock::now())).hash(&mut h);
                let key = if viol.is_empty() { h.finish128() } else { 0xBAD };
                (Some(key), viol, hash_of(&(class, mon.pings.min(3), mon.dead)))
            });
            (out, trace)
        }));
        match result {
            Ok((Built::Ran((key, viol, class)), trace)) => (StepOut { key, viol, class }, trace),
            Ok((Built::Config(e), _)) => panic!("machinery: {}", e),
            Err(p) => {
                let text = panic_text(&p);
                let rule = if text.starts_with("machinery:") { "MACHINERY" } else { "PANIC" };
                let cls: String = text.chars().take(40).map(|c| if c.is_ascii_alphanumeric() { c } else { '_' }).collect();
                (
                    StepOut {
                        key: Some(hash_of(&text) as u128),
                        viol: vec![(format!("C10:{}:{}", rule, cls), format!("client code panicked: {}", text))],
                        class: 0xDEAD,
                    },
                    vec![format!("PANIC: {}", text)],
                )
            }
        }
    }
}

fn bench_publish(bench: &Bench, conn: &mut Connection<'_, '_, VirtualIo>, id: usize, q: u8) -> Result<(), Res> {
    let fut = conn.publish(Publication::bytes("t", b"x").qos(match q {
        0 => QoS::AtMostOnce,
        1 => QoS::AtLeastOnce,
        _ => QoS::ExactlyOnce,
    }));
    let mut fut = Box::pin(fut);
    let waker = noop_waker();
    let mut cx = Context::from_waker(&waker);
    bench.sh.borrow_mut().op_calls = 0;
    match fut.as_mut().poll(&mut cx) {
        Poll::Ready(Ok(_)) => Ok(()),
        Poll::Ready(Err(e)) => Err(Res::from_pub(&e)),
        Poll::Pending => panic!("machinery: publish blocked on a writable transport"),
    }
}

pub fn pairs(tier: Tier) -> Vec<(u16, Option<u16>)> {
    if tier == Tier::Quick {
        vec![(0, None), (1, None), (3, None), (10, None), (60, None), (60, Some(1)), (1, Some(0)), (0, Some(30)), (11, Some(5))]
    } else {
        let mut v = Vec::new();
        for k in [0u16, 1, 2, 3, 4, 5, 6, 9, 10, 11, 12, 30, 60, 300, 65535] {
            for s in [None, Some(0u16), Some(1), Some(2), Some(4), Some(5), Some(6), Some(10), Some(30), Some(65535)] {
                v.push((k, s));
            }
        }
        // every effective keep-alive from 0 to 64 s (the formula for the idle time before a PINGREQ changes shape
        // at twice the round-trip bound) and a few large ones, configured or imposed by the broker
        let wide: Vec<u16> = (0..=64u16).chain([65, 90, 100, 120, 127, 128, 255, 256, 600, 3600, 32767, 32768, 65534]).collect();
        for &e in &wide {
            for cand in [(e, None), (60, Some(e)), (0, Some(e)), (65535, Some(e))] {
                if !v.contains(&cand) {
                    v.push(cand);
                }
            }
        }
        v
    }
}

fn models(tier: Tier) -> Vec<C10> {
    let mut v: Vec<C10> = pairs(tier).into_iter().map(|(k, s)| C10 { keepalive: k, server: s, max_packet: None }).collect();
    // a Maximum Packet Size that a PINGREQ just fits
    if tier == Tier::Quick {
        v.push(C10 { keepalive: 10, server: None, max_packet: Some(2) });
        v.push(C10 { keepalive: 1, server: None, max_packet: Some(4) });
    } else {
        for k in [1u16, 3, 10, 60] {
            for s in [None, Some(5u16)] {
                for m in [2u32, 3, 4, 5] {
                    v.push(C10 { keepalive: k, server: s, max_packet: Some(m) });
                }
            }
        }
    }
    v
}

pub fn run(tier: Tier, caps: &Caps) -> Vec<FamilyReport> {
    let mut out = Vec::new();
    for m in models(tier) {
        let (k, s) = (m.keepalive, m.server);
        let cc = ClosureCaps {
            max_states: if tier == Tier::Quick { 200_000 } else { 2_000_000 },
            max_depth: 200,
            wall: caps.wall,
            threads: caps.threads,
        };
        let bounds = json!({"keepalive_s": k, "server_keepalive_s": s, "maximum_packet_size": m.max_packet, "round_trip_bound_ms": ROUND_TRIP_MS, "state_cap": cc.max_states,
            "oracles": "G0 keep-alive 0: no PINGREQ; G1 gap between completed client packets (and time waited with nothing sent) <= effective keep-alive (+1 ms per late timer); G2 unanswered PINGREQ => disconnected at, and not before, completion + 5 s; G3 PINGRESP consumed before the bound => no disconnect (exact coincidence: either)"});
        out.push(close(&m, "C10", &cc, bounds));
    }
    out
}

pub fn replay(name: &str, hist: &[u8]) -> Option<(StepOut, Vec<String>)> {
    for m in models(Tier::Thorough).into_iter().chain(models(Tier::Quick)) {
        if m.name() == name {
            return Some(m.run(hist, true));
        }
    }
    None
}
