//! C10 (placeholder until the closure model is written)
use crate::closure::StepOut;
pub fn replay(_name: &str, _hist: &[u8]) -> Option<(StepOut, Vec<String>)> { None }
