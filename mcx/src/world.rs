//! One execution: the real `Session`/`Connection` driven under a fully controlled environment.
#![allow(dead_code)]

use crate::broker::{self, Broker, Emit};
use crate::cfg::{Cfg, OpK};
use crate::chooser::*;
use crate::clock;
use crate::mqtt_ref::{self as mr, SPacket};
use crate::oracle::{InMsg, Oracle, Outcome, ReqKind, Status, Violation};
use embedded_io_async::ErrorKind;
use minimq::{
    Buffers, ConfigBuilder, ConnectEvent, Connection, Error, Op, PeerError, PubError, Publication, QoS,
    ResourceError, Session, TopicFilter, Will,
};
use minimq::{Property, SubscriptionOptions};
use std::cell::RefCell;
use std::collections::VecDeque;
use std::future::Future;
use std::hash::{Hash, Hasher};
use std::rc::Rc;
use std::task::{Context, Poll, RawWaker, RawWakerVTable, Waker};

// ---------------------------------------------------------------------------------------------
// Result classification
// ---------------------------------------------------------------------------------------------

#[derive(Copy, Clone, Debug, PartialEq, Eq, Hash, PartialOrd, Ord)]
pub enum Res {
    Ok,
    OkMsg,
    Cancelled,
    NotReady,
    Disconnected,
    InvalidRequest,
    Rejected(u8),
    InvalidPacket,
    BufferTooSmall,
    PacketTooLarge,
    InflightExhausted,
    Transport,
    WriteZero,
    Payload,
    Other,
}

impl Res {
    pub fn from_err(e: &Error<ErrorKind>) -> Res {
        match e {
            Error::NotReady => Res::NotReady,
            Error::Disconnected => Res::Disconnected,
            Error::InvalidRequest => Res::InvalidRequest,
            Error::Peer(PeerError::Rejected(c)) => Res::Rejected(u8::from(c)),
            Error::Peer(PeerError::InvalidPacket) => Res::InvalidPacket,
            Error::Resource(ResourceError::BufferTooSmall) => Res::BufferTooSmall,
            Error::Resource(ResourceError::PacketTooLarge) => Res::PacketTooLarge,
            Error::Resource(ResourceError::InflightExhausted) => Res::InflightExhausted,
            Error::Transport(_) => Res::Transport,
            Error::WriteZero => Res::WriteZero,
            _ => Res::Other,
        }
    }
    pub fn from_pub(e: &PubError<(), ErrorKind>) -> Res {
        match e {
            PubError::Session(e) => Res::from_err(e),
            PubError::Payload(_) => Res::Payload,
        }
    }
    /// Results after which the handle must be dead (property C11).
    pub fn fatal(&self) -> bool {
        matches!(self, Res::Transport | Res::Disconnected | Res::InvalidPacket)
    }
    pub fn rejected(&self) -> Option<u8> {
        match self {
            Res::Rejected(c) => Some(*c),
            _ => None,
        }
    }
}

// ---------------------------------------------------------------------------------------------
// Virtual transport
// ---------------------------------------------------------------------------------------------

#[derive(Copy, Clone, Debug, PartialEq, Eq, Hash)]
pub enum Pend {
    None,
    ReadEmpty,
    Chosen,
}

#[derive(Default, Clone, Debug, Hash)]
pub struct ConnIo {
    pub inbound: VecDeque<u8>,
    /// packets emitted by the broker with the number of their bytes not yet read
    pub emitted: VecDeque<(SPacket, usize, usize)>,
    pub closed: bool,
    pub reads: u32,
    pub writes: u32,
    pub flushes: u32,
    pub bytes_in: u64,
    pub bytes_out: u64,
    pub eof_pending: bool,
    /// every byte accepted by write (only kept when `Shared::keep_tx` is set)
    pub tx_log: Vec<u8>,
}

pub struct Shared {
    pub ch: Chooser,
    pub cfg: Rc<Cfg>,
    pub draining: bool,
    pub conns: Vec<ConnIo>,
    pub broker: Broker,
    pub oracle: Oracle,
    pub trace: Option<Vec<String>>,
    pub op_calls: u32,
    pub pending: Pend,
    pub just_resumed: bool,
    pub cancel_ok: bool,
    pub budget: u32,
    pub progress: u64,
    pub env_steps: u32,
    /// the broker model stays silent; the scenario pushes inbound bytes itself
    pub manual: bool,
    /// scripted scenarios: the next write stalls (returns Pending once); the scenario decides how long
    pub stall_next_write: bool,
    /// scripted scenarios: the next flush stalls (returns Pending once)
    pub stall_next_flush: bool,
    /// write calls made by the current operation
    pub op_writes: u32,
    /// the transport answered Ok(0) in this call and (`write_zero_sticky`) goes on doing so until the call returns
    pub zero_latched: bool,
    /// the previous write call of the current operation was answered with a partial accept
    pub last_write_partial: bool,
    /// (index of the write call that was answered Pending, previous write was partial)
    pub pend_write_info: Option<(u32, bool)>,
    /// twin script: answer this write call of the current operation with Pending and drop the operation there
    pub pend_at_write: Option<u32>,
    pub force_cancel: bool,
    pub keep_tx: bool,
    /// the most recent cancellation was forced (nothing else could happen), not a chosen deviation
    pub last_cancel_forced: bool,
    /// buffering transport: packets accepted by write and waiting for a flush (connection, packet, bytes)
    pub held: Vec<(usize, mr::CPacket, Vec<u8>)>,
}

pub struct Watchdog(pub &'static str);

impl Shared {
    fn log(&mut self, f: impl FnOnce() -> String) {
        if let Some(t) = &mut self.trace {
            t.append(&mut self.oracle.flag_log);
            t.push(f());
        } else {
            self.oracle.flag_log.clear();
        }
    }

    fn tick(&mut self, what: &'static str) {
        clock::spin_reset();
        self.op_calls += 1;
        if self.op_calls > self.cfg.watchdog_calls {
            std::panic::resume_unwind(Box::new(Watchdog(what)));
        }
    }

    fn explore(&self) -> bool {
        !self.draining
    }

    fn partial_sizes(&self, n: usize) -> Vec<usize> {
        if n <= 1 {
            return vec![];
        }
        if n <= self.cfg.io.all_partials_upto {
            (1..n).collect()
        } else {
            let mut v = vec![1, 2, n / 2, n - 1];
            v.sort();
            v.dedup();
            v.retain(|k| *k >= 1 && *k < n);
            v
        }
    }

    fn deliver_to_broker(&mut self, c: usize, pkts: Vec<(mr::CPacket, Vec<u8>)>) {
        for (pkt, raw) in pkts {
            self.log(|| format!("  wire c{} -> broker {} {}", c, pkt.name(), mr::hex_short(&raw)));
            self.oracle.reached_broker(&pkt, &raw);
            self.broker.on_client_packet(&pkt);
            if matches!(pkt, mr::CPacket::Disconnect { .. }) {
                // the broker closes the network connection after a DISCONNECT
                self.conns[c].eof_pending = true;
            }
        }
    }

    /// The error a faulting transport call reports: one of the kinds the family lists (a choice when several).
    fn fault_kind(&mut self) -> ErrorKind {
        const KINDS: [ErrorKind; 18] = [
            ErrorKind::ConnectionReset,
            ErrorKind::WriteZero,
            ErrorKind::TimedOut,
            ErrorKind::Interrupted,
            ErrorKind::Other,
            ErrorKind::BrokenPipe,
            ErrorKind::ConnectionAborted,
            ErrorKind::NotConnected,
            ErrorKind::OutOfMemory,
            ErrorKind::InvalidData,
            ErrorKind::InvalidInput,
            ErrorKind::Unsupported,
            ErrorKind::NotFound,
            ErrorKind::PermissionDenied,
            ErrorKind::ConnectionRefused,
            ErrorKind::AddrInUse,
            ErrorKind::AddrNotAvailable,
            ErrorKind::AlreadyExists,
        ];
        let n = self.cfg.fault_kinds.min(KINDS.len());
        let i = if n > 1 { self.ch.choose(K_VARIANT, n, 0) } else { 0 };
        if n > 1 {
            self.log(|| format!("  (the transport reports {:?})", KINDS[i]));
        }
        KINDS[i]
    }

    pub fn on_write(&mut self, c: usize, buf: &[u8]) -> Poll<Result<usize, ErrorKind>> {
        self.tick("write");
        self.conns[c].writes += 1;
        if buf.is_empty() {
            return Poll::Ready(Ok(0));
        }
        if self.conns[c].closed {
            self.log(|| format!("  io c{} write on closed transport", c));
            return Poll::Ready(Err(ErrorKind::BrokenPipe));
        }
        self.oracle.write_offered(c, buf);
        let write_idx = self.op_writes;
        self.op_writes += 1;
        if self.zero_latched && self.explore() {
            self.log(|| format!("  io c{} write returns Ok(0) again", c));
            return Poll::Ready(Ok(0));
        }
        if self.pend_at_write == Some(write_idx) {
            self.pend_at_write = None;
            self.force_cancel = true;
            self.log(|| format!("  io c{} write pending (as scripted)", c));
            self.pending = Pend::Chosen;
            return Poll::Pending;
        }
        if self.stall_next_write {
            self.stall_next_write = false;
            self.log(|| format!("  io c{} write stalls", c));
            self.pending = Pend::Chosen;
            return Poll::Pending;
        }
        #[derive(Copy, Clone)]
        enum A {
            All,
            Part(usize),
            Pending,
            Err,
            Zero,
        }
        let mut opts = vec![A::All];
        if self.explore() {
            if self.cfg.io.write_partial {
                for k in self.partial_sizes(buf.len()) {
                    opts.push(A::Part(k));
                }
            }
            if self.cfg.io.write_pending && !self.just_resumed {
                opts.push(A::Pending);
            }
            if self.cfg.io.write_err {
                opts.push(A::Err);
            }
            if self.cfg.io.write_zero {
                opts.push(A::Zero);
            }
        }
        self.just_resumed = false;
        let mask = mask_all_but_first(opts.len());
        let i = if opts.len() > 1 {
            self.ch.choose(K_WRITE, opts.len(), mask)
        } else {
            0
        };
        let prev_partial = self.last_write_partial;
        self.last_write_partial = matches!(opts[i], A::Part(_));
        match opts[i] {
            A::All | A::Part(_) => {
                let n = match opts[i] {
                    A::Part(k) => k,
                    _ if self.cfg.io.max_write > 0 => buf.len().min(self.cfg.io.max_write),
                    _ => buf.len(),
                };
                self.log(|| format!("  io c{} write {}/{} {}", c, n, buf.len(), mr::hex_short(&buf[..n])));
                if n < buf.len() {
                    if buf.len() >= 130 {
                        self.oracle.reach(5);
                    }
                    if buf.len() > 65535 {
                        self.oracle.reach(10);
                    }
                }
                self.conns[c].bytes_out += n as u64;
                self.progress += n as u64;
                if self.keep_tx {
                    self.conns[c].tx_log.extend_from_slice(&buf[..n]);
                }
                let pkts = self.oracle.write_accepted(c, buf, n);
                if self.cfg.io.deliver_on_flush {
                    for (pkt, raw) in pkts {
                        self.held.push((c, pkt, raw));
                    }
                } else {
                    self.deliver_to_broker(c, pkts);
                }
                Poll::Ready(Ok(n))
            }
            A::Pending => {
                self.log(|| format!("  io c{} write pending", c));
                self.pend_write_info = Some((write_idx, prev_partial));
                self.pending = Pend::Chosen;
                Poll::Pending
            }
            A::Err => {
                self.log(|| format!("  io c{} write error", c));
                if self.oracle.half_written(c) {
                    self.oracle.reach(19);
                }
                if !self.cfg.io.err_keeps_open {
                    self.close_conn(c);
                }
                Poll::Ready(Err(self.fault_kind()))
            }
            A::Zero => {
                self.zero_latched = self.cfg.io.write_zero_sticky;
                self.log(|| format!("  io c{} write returns Ok(0)", c));
                Poll::Ready(Ok(0))
            }
        }
    }

    pub fn on_flush(&mut self, c: usize) -> Poll<Result<(), ErrorKind>> {
        self.tick("flush");
        self.conns[c].flushes += 1;
        if self.conns[c].closed {
            return Poll::Ready(Err(ErrorKind::BrokenPipe));
        }
        if self.stall_next_flush {
            self.stall_next_flush = false;
            self.log(|| format!("  io c{} flush stalls", c));
            self.pending = Pend::Chosen;
            return Poll::Pending;
        }
        let mut opts = vec![0u8];
        if self.explore() {
            if self.cfg.io.flush_pending && !self.just_resumed {
                opts.push(1);
            }
            if self.cfg.io.flush_err {
                opts.push(2);
            }
        }
        self.just_resumed = false;
        let i = if opts.len() > 1 {
            self.ch.choose(K_FLUSH, opts.len(), mask_all_but_first(opts.len()))
        } else {
            0
        };
        match opts[i] {
            0 => {
                self.progress += 1;
                self.oracle.flush_ok(c);
                if self.cfg.io.deliver_on_flush {
                    let held = std::mem::take(&mut self.held);
                    let (mine, rest): (Vec<_>, Vec<_>) = held.into_iter().partition(|h| h.0 == c);
                    self.held = rest;
                    self.deliver_to_broker(c, mine.into_iter().map(|h| (h.1, h.2)).collect());
                }
                Poll::Ready(Ok(()))
            }
            1 => {
                self.log(|| format!("  io c{} flush pending", c));
                self.pending = Pend::Chosen;
                Poll::Pending
            }
            _ => {
                self.log(|| format!("  io c{} flush error", c));
                if !self.cfg.io.err_keeps_open {
                    self.close_conn(c);
                }
                Poll::Ready(Err(self.fault_kind()))
            }
        }
    }

    pub fn on_read(&mut self, c: usize, buf: &mut [u8]) -> Poll<Result<usize, ErrorKind>> {
        self.tick("read");
        self.conns[c].reads += 1;
        if buf.is_empty() {
            return Poll::Ready(Ok(0));
        }
        if self.conns[c].closed {
            return Poll::Ready(Err(ErrorKind::BrokenPipe));
        }
        let avail = self.conns[c].inbound.len();
        if avail == 0 {
            if self.conns[c].eof_pending {
                self.log(|| format!("  io c{} read EOF", c));
                self.close_conn(c);
                return Poll::Ready(Ok(0));
            }
            self.pending = Pend::ReadEmpty;
            return Poll::Pending;
        }
        let full = avail.min(buf.len());
        #[derive(Copy, Clone)]
        enum A {
            Give(usize),
            Pending,
            Err,
            Eof,
        }
        let mut opts = vec![A::Give(full)];
        if self.explore() {
            if self.cfg.io.read_partial {
                for k in self.partial_sizes(full) {
                    opts.push(A::Give(k));
                }
            }
            if self.cfg.io.read_pending && !self.just_resumed {
                opts.push(A::Pending);
            }
            if self.cfg.io.read_err {
                opts.push(A::Err);
            }
            if self.cfg.io.read_eof {
                opts.push(A::Eof);
            }
        }
        self.just_resumed = false;
        let i = if opts.len() > 1 {
            self.ch.choose(K_READ, opts.len(), mask_all_but_first(opts.len()))
        } else {
            0
        };
        match opts[i] {
            A::Give(n) => {
                for slot in buf.iter_mut().take(n) {
                    *slot = self.conns[c].inbound.pop_front().unwrap();
                }
                self.log(|| format!("  io c{} read {} {}", c, n, mr::hex_short(&buf[..n])));
                if n < avail && self.conns[c].emitted.front().is_some_and(|f| f.2 >= 130) {
                    self.oracle.reach(6);
                }
                self.conns[c].bytes_in += n as u64;
                self.progress += n as u64;
                let mut left = n;
                while left > 0 {
                    let Some(front) = self.conns[c].emitted.front_mut() else {
                        break;
                    };
                    let take = left.min(front.1);
                    front.1 -= take;
                    left -= take;
                    if front.1 == 0 {
                        let (pkt, _, _) = self.conns[c].emitted.pop_front().unwrap();
                        self.log(|| format!("  client consumed {}", pkt.name()));
                        self.oracle.client_consumed(c, &pkt);
                    }
                }
                Poll::Ready(Ok(n))
            }
            A::Pending => {
                self.log(|| format!("  io c{} read pending although data is available", c));
                self.pending = Pend::Chosen;
                Poll::Pending
            }
            A::Err => {
                self.log(|| format!("  io c{} read error", c));
                if !self.cfg.io.err_keeps_open {
                    self.close_conn(c);
                }
                Poll::Ready(Err(self.fault_kind()))
            }
            A::Eof => {
                self.log(|| format!("  io c{} read EOF", c));
                self.close_conn(c);
                Poll::Ready(Ok(0))
            }
        }
    }

    pub fn close_conn(&mut self, c: usize) {
        if !self.conns[c].closed {
            self.conns[c].closed = true;
            self.oracle.conns[c].closed = true;
            if self.conns.len() - 1 == c {
                self.broker.conn_close();
            }
        }
    }

    fn push_inbound(&mut self, c: usize, pkt: SPacket) {
        let raw = pkt.encode();
        self.log(|| format!("  broker -> c{} {} {}", c, pkt.name(), mr::hex_short(&raw)));
        self.oracle.broker_emit(c, &pkt);
        self.conns[c].inbound.extend(raw.iter().copied());
        self.conns[c].emitted.push_back((pkt, raw.len(), raw.len()));
    }

    fn push_raw(&mut self, c: usize, raw: &[u8]) {
        self.log(|| format!("  broker -> c{} raw {}", c, mr::hex_short(raw)));
        self.conns[c].inbound.extend(raw.iter().copied());
    }

    /// Emit the broker's CONNACK; in exploration mode the form is a choice.
    fn emit_connack(&mut self, c: usize, e: &Emit, clean_start: bool) {
        let can_resume = self.broker.can_resume(clean_start);
        let bc = self.cfg.broker.clone();
        #[derive(Copy, Clone, PartialEq)]
        enum V {
            Resume,
            Fresh,
            Reject(u8),
            ServerDisconnect,
            NotConnack,
            Garbage,
            Eof,
            ZeroReceiveMax,
            /// the broker starts a fresh session (session present = 0) and the CONNACK carries an illegal value
            ZeroReceiveMaxFresh,
            /// session present = 1 although the broker cannot resume (e.g. in answer to a clean start)
            ResumeAnyway,
        }
        let mut opts: Vec<(V, bool)> = Vec::new();
        if can_resume {
            opts.push((V::Resume, false));
            if bc.may_lose_session && self.explore() {
                opts.push((V::Fresh, false));
            }
        } else {
            opts.push((V::Fresh, false));
        }
        if bc.bad_handshake && self.explore() && !can_resume {
            opts.push((V::ResumeAnyway, true));
        }
        if bc.bad_handshake && self.explore() {
            for v in [
                V::Reject(0x87),
                V::Reject(0x88),
                V::ServerDisconnect,
                V::NotConnack,
                V::Garbage,
                V::Eof,
                V::ZeroReceiveMax,
                V::ZeroReceiveMaxFresh,
            ] {
                opts.push((v, true));
            }
        }
        let mut mask = 0u64;
        for (i, o) in opts.iter().enumerate() {
            if o.1 {
                mask |= 1 << i;
            }
        }
        let i = if opts.len() > 1 {
            self.ch.choose(K_VARIANT, opts.len(), mask)
        } else {
            0
        };
        let pick = |sh: &mut Shared, n: usize| -> usize {
            if n > 1 && sh.explore() {
                sh.ch.choose(K_VARIANT, n, 0)
            } else {
                0
            }
        };
        match opts[i].0 {
            V::Resume | V::Fresh | V::ResumeAnyway => {
                let rm = bc.receive_max[pick(self, bc.receive_max.len())];
                let mp = bc.max_packet[pick(self, bc.max_packet.len())];
                let mq = bc.max_qos[pick(self, bc.max_qos.len())];
                let ka = bc.server_keepalive[pick(self, bc.server_keepalive.len())];
                let id = bc.assigned_id[pick(self, bc.assigned_id.len())];
                let mut props = broker::connack_props(rm, mp, mq, ka, id);
                let extra = bc.connack_extras[pick(self, bc.connack_extras.len())];
                if extra != 0 {
                    self.log(|| format!("  (CONNACK dressed with further legal properties, set {})", extra));
                }
                props.extend(broker::connack_extras(extra));
                let pkt = self.broker.connack(e, opts[i].0 != V::Fresh, props);
                self.push_inbound(c, pkt);
            }
            V::Reject(code) => {
                self.broker.handshake_failed();
                self.push_inbound(
                    c,
                    SPacket::ConnAck {
                        session_present: false,
                        reason: code,
                        props: vec![],
                    },
                );
                self.conns[c].eof_pending = true;
            }
            V::ServerDisconnect => {
                self.broker.handshake_failed();
                self.push_inbound(
                    c,
                    SPacket::Disconnect {
                        reason: 0x89,
                        props: vec![],
                        form: 1,
                    },
                );
                self.conns[c].eof_pending = true;
            }
            V::NotConnack => {
                self.broker.handshake_failed();
                self.push_inbound(c, SPacket::PingResp);
                self.conns[c].eof_pending = true;
            }
            V::Garbage => {
                self.broker.handshake_failed();
                self.push_raw(c, &[0x20, 0x02, 0x07]);
                self.push_raw(c, &[0x07]);
                self.conns[c].eof_pending = true;
            }
            V::Eof => {
                self.broker.handshake_failed();
                self.conns[c].eof_pending = true;
            }
            V::ZeroReceiveMax | V::ZeroReceiveMaxFresh => {
                // the illegal value comes last: whatever the properties in front of it say must not outlive
                // the refused handshake
                let mut props = vec![
                    mr::Prop { id: 0x12, val: mr::PVal::Str(b"intruder".to_vec()) },
                    mr::Prop { id: 0x13, val: mr::PVal::U16(7) },
                    mr::Prop { id: 0x27, val: mr::PVal::U32(9) },
                    mr::Prop { id: 0x24, val: mr::PVal::Byte(0) },
                ];
                props.extend(broker::connack_props(Some(0), None, None, None, None));
                let resume = can_resume && opts[i].0 == V::ZeroReceiveMax;
                let pkt = self.broker.connack(e, resume, props);
                self.broker.handshake_failed();
                self.push_inbound(c, pkt);
                self.conns[c].eof_pending = true;
            }
        }
    }

    fn emit(&mut self, c: usize, e: &Emit) {
        if let Some(clean) = self.broker.is_connack(e) {
            self.emit_connack(c, e, clean);
            return;
        }
        let mut fail = 0u8;
        if self.explore() && self.cfg.broker.ack_fail && self.broker.can_fail(e) {
            // 0 = plain success, 1 = failure code, 2 = success with a non-zero reason (PUBACK / PUBREC 0x10)
            // for SUBACK / UNSUBACK with several filters: 3 = only the first filter refused, 4 = only the last
            let n = if self.broker.can_succeed_nonzero(e) {
                3
            } else if self.broker.filters_of(e) > 1 {
                4
            } else {
                2
            };
            fail = self.ch.choose(K_VARIANT, n, 0) as u8;
            if n == 4 && fail >= 2 {
                fail += 1;
            }
        }
        if fail == 1 && self.cfg.broker.fail_codes.len() > 1 && self.broker.is_puback_or_pubrec(e) {
            // which failure code the refusal carries
            fail = 100 + self.ch.choose(K_VARIANT, self.cfg.broker.fail_codes.len(), 0) as u8;
        }
        if self.explore() && self.cfg.broker.pubrel_forms && self.broker.is_pubrel(e) {
            // 10 = short form, 11 = reason code 0x92, 12 = reason code 0 with an explicit (empty) property block
            fail = 10 + self.ch.choose(K_VARIANT, 3, 0) as u8;
        }
        let mut form_choice = 0usize;
        if self.explore() && self.cfg.broker.ack_forms && fail == 0 {
            let n = self.broker.ack_form_choices(e);
            if n > 1 {
                form_choice = self.ch.choose(K_VARIANT, n, 0);
            }
        }
        let mut pkt = self.broker.emit(e, fail);
        if form_choice > 0 {
            match &mut pkt {
                SPacket::Ack { form, props, .. } => {
                    *form = form_choice.min(2) as u8;
                    if form_choice == 3 {
                        *props = broker::ack_dressing();
                    }
                }
                SPacket::SubAck { props, .. } | SPacket::UnsubAck { props, .. } => *props = broker::ack_dressing(),
                _ => {}
            }
        }
        self.push_inbound(c, pkt);
        if self.cfg.broker.script_burst && matches!(e, Emit::Script) {
            while self.broker.enabled().iter().any(|x| matches!(x, Emit::Script)) {
                let pkt = self.broker.emit(&Emit::Script, 0);
                self.push_inbound(c, pkt);
            }
        }
    }

    /// The operation future returned `Pending`: decide what happens next in the world.
    /// Returns true to resume polling, false to cancel the future.
    pub fn env_step(&mut self, c: Option<usize>) -> bool {
        self.env_steps += 1;
        self.tick("env");
        match self.pending {
            Pend::Chosen if self.force_cancel => {
                self.force_cancel = false;
                self.log(|| "  env: application drops the future (as scripted)".to_string());
                self.last_cancel_forced = false;
                false
            }
            Pend::Chosen => {
                // the deviation was already paid for by the Pending answer itself
                let cancel = self.explore() && self.cfg.cancel && self.cancel_ok;
                let i = if cancel { self.ch.choose(K_PEND, 2, 0) } else { 0 };
                self.just_resumed = true;
                if i == 1 {
                    self.log(|| "  env: application drops the future".to_string());
                    self.last_cancel_forced = false;
                    false
                } else {
                    true
                }
            }
            Pend::ReadEmpty => {
                let c = c.expect("blocked read without a connection");
                #[derive(Clone, Debug)]
                enum E {
                    Emit(Emit),
                    Repoll,
                    Advance(u64),
                    AdvanceLate(u64),
                    Cancel,
                    ReadErr,
                    Eof,
                    ServerDisconnect,
                    StaleAck(u8),
                    Garbage(u8),
                    EmitAndAdvance(Emit, u64),
                    WrongAck(u8),
                    DupPubrecFail(u8),
                }
                let mut opts: Vec<(E, bool)> = Vec::new();
                let enabled = if self.manual { Vec::new() } else { self.broker.enabled() };
                let now = clock::now();
                let wake = clock::wake();
                if self.draining || self.cfg.broker.fifo {
                    if let Some(e) = enabled.first() {
                        opts.push((E::Emit(e.clone()), false));
                    }
                } else {
                    for e in &enabled {
                        opts.push((E::Emit(e.clone()), matches!(e, Emit::DupRetransmit(_))));
                    }
                }
                // deterministic environment (twin families): data that is due arrives before any timer
                let timers_allowed = !(self.cfg.broker.fifo && !opts.is_empty());
                if let Some(t) = wake.filter(|_| timers_allowed) {
                    if t <= now {
                        // a deadline that has already passed makes the client poll again at once (it spins
                        // until something happens): offered only when nothing else can happen, and the
                        // spinning takes time
                        if opts.is_empty() {
                            opts.push((E::Repoll, false));
                        }
                    } else {
                        opts.push((E::Advance(t), false));
                        if self.explore() && self.cfg.late_timer_ms > 0 {
                            opts.push((E::AdvanceLate(t + self.cfg.late_timer_ms * clock::TICKS_PER_MS), true));
                            for e in &enabled {
                                if !matches!(e, Emit::DupRetransmit(_)) {
                                    opts.push((E::EmitAndAdvance(e.clone(), t), true));
                                }
                            }
                        }
                    }
                }
                let forced = opts.is_empty();
                if forced {
                    opts.push((E::Cancel, false));
                } else if self.explore() && self.cfg.cancel && self.cancel_ok && !self.cfg.no_cancel_while_idle {
                    opts.push((E::Cancel, true));
                }
                if self.explore() {
                    if self.cfg.io.read_err {
                        opts.push((E::ReadErr, true));
                    }
                    if self.cfg.io.read_eof {
                        opts.push((E::Eof, true));
                    }
                    if self.cfg.broker.disconnect && self.broker.connected {
                        opts.push((E::ServerDisconnect, true));
                    }
                    if self.cfg.broker.stale_acks && self.broker.connected {
                        for k in 0..6u8 {
                            opts.push((E::StaleAck(k), true));
                        }
                    }
                    if self.cfg.broker.garbage && self.broker.connected {
                        for k in 0..GARBAGE.len() as u8 {
                            opts.push((E::Garbage(k), true));
                        }
                    }
                    if self.cfg.broker.dup_pubrec_fail && self.broker.connected {
                        let epoch = self.oracle.epoch;
                        for r in self.oracle.reqs.iter() {
                            if r.kind == ReqKind::Pub2 && r.live(epoch) && r.pid.is_some() && r.pubrec_ok.is_some() && r.rel.contains_key(&c) {
                                opts.push((E::DupPubrecFail(r.seq), true));
                            }
                        }
                    }
                    if self.cfg.broker.wrong_kind_acks && self.broker.connected {
                        let epoch = self.oracle.epoch;
                        for r in self.oracle.reqs.iter() {
                            if r.live(epoch) && r.pid.is_some() && r.pubrec_ok.is_none() && r.tx.contains_key(&c) {
                                opts.push((E::WrongAck(r.seq), true));
                            }
                        }
                    }
                }
                let mut mask = 0u64;
                for (i, o) in opts.iter().enumerate() {
                    if o.1 {
                        mask |= 1 << i;
                    }
                }
                let i = if opts.len() > 1 {
                    self.ch.choose(K_ENV, opts.len(), mask)
                } else {
                    0
                };
                self.just_resumed = true;
                match opts[i].0.clone() {
                    E::Emit(e) => {
                        self.emit(c, &e);
                        true
                    }
                    E::EmitAndAdvance(e, t) => {
                        self.emit(c, &e);
                        clock::set(t);
                        self.log(|| format!("  env: clock -> {} ms (with data)", clock::now_ms()));
                        true
                    }
                    E::Repoll => {
                        clock::set(clock::now() + 100 * clock::TICKS_PER_MS);
                        true
                    }
                    E::Advance(t) | E::AdvanceLate(t) => {
                        clock::set(t);
                        self.log(|| format!("  env: clock -> {} ms", clock::now_ms()));
                        true
                    }
                    E::Cancel => {
                        self.last_cancel_forced = forced;
                        self.log(|| {
                            if forced {
                                "  env: nothing can happen; application drops the future".to_string()
                            } else {
                                "  env: application drops the future".to_string()
                            }
                        });
                        false
                    }
                    E::ReadErr => {
                        self.log(|| format!("  io c{} read error (while blocked)", c));
                        // the blocked read resolves with an error on the next poll
                        self.conns[c].closed = true;
                        self.oracle.conns[c].closed = true;
                        self.broker.conn_close();
                        true
                    }
                    E::Eof => {
                        self.conns[c].eof_pending = true;
                        self.broker.conn_close();
                        true
                    }
                    E::ServerDisconnect => {
                        self.push_inbound(
                            c,
                            SPacket::Disconnect {
                                reason: 0x8B,
                                props: vec![],
                                form: 1,
                            },
                        );
                        self.conns[c].eof_pending = true;
                        self.broker.conn_close();
                        true
                    }
                    E::Garbage(k) => {
                        let raw = GARBAGE[k as usize];
                        self.push_raw(c, raw);
                        self.conns[c].eof_pending = true;
                        self.broker.conn_close();
                        true
                    }
                    E::DupPubrecFail(seq) => {
                        let pid = self.oracle.reqs[seq as usize].pid.unwrap();
                        self.log(|| format!("  fault: broker repeats PUBREC for identifier {} with a failure code although it already received the PUBREL", pid));
                        self.push_inbound(c, SPacket::Ack { kind: mr::AckKind::PubRec, pid, reason: 0x80, props: vec![], form: 1 });
                        true
                    }
                    E::WrongAck(seq) => {
                        let r = &self.oracle.reqs[seq as usize];
                        let pid = r.pid.unwrap();
                        let pkt = match r.kind {
                            ReqKind::Pub1 | ReqKind::Unsub => SPacket::SubAck { pid, props: vec![], codes: vec![0] },
                            ReqKind::Pub2 | ReqKind::Sub => SPacket::Ack { kind: mr::AckKind::PubAck, pid, reason: 0, props: vec![], form: 0 },
                        };
                        self.log(|| format!("  fault: broker acknowledges identifier {} with the wrong kind of packet", pid));
                        self.push_inbound(c, pkt);
                        true
                    }
                    E::StaleAck(k) => {
                        // (4 and 5: the stale acknowledgement carries a failure code)
                        let (kind, reason) = match k {
                            0 => (mr::AckKind::PubAck, 0),
                            1 => (mr::AckKind::PubRec, 0),
                            2 => (mr::AckKind::PubComp, 0),
                            3 => (mr::AckKind::PubRel, 0),
                            4 => (mr::AckKind::PubRec, 0x97),
                            _ => (mr::AckKind::PubAck, 0x80),
                        };
                        self.push_inbound(
                            c,
                            SPacket::Ack {
                                kind,
                                pid: 777,
                                reason,
                                props: vec![],
                                form: if reason == 0 { 0 } else { 1 },
                            },
                        );
                        true
                    }
                }
            }
            Pend::None => {
                panic!("machinery: future returned Pending without touching the transport");
            }
        }
    }
}

/// Malformed inbound data, one per class listed in property C08.
pub const GARBAGE: [&[u8]; 14] = [
    &[0xF0, 0x00],                               // AUTH: unsupported type
    &[0x40, 0x81, 0x00, 0x00, 0x01],             // non-canonical remaining length
    &[0xD1, 0x00],                               // PINGRESP with flags
    &[0x36, 0x06, 0x00, 0x01, 0x41, 0x00, 0x01, 0x00], // QoS 3
    &[0x40, 0x01, 0x00],                         // PUBACK truncated
    &[0xD0, 0x01, 0x00],                         // trailing byte
    &[0x20, 0x03, 0x00, 0x00, 0x00],             // well-formed but invalid here: a second CONNACK
    &[0x00, 0x00],                               // reserved packet type 0
    &[0x0B, 0x02, 0x00, 0x01],                   // reserved packet type 0 with flags and a body
    &[0xC0, 0x00],                               // PINGREQ: a packet only clients send
    &[0x82, 0x06, 0x00, 0x01, 0x00, 0x00, 0x01, 0x61], // SUBSCRIBE: client-only (with a legal body)
    &[0x60, 0x02, 0x00, 0x01],                   // PUBREL without its mandatory flags
    &[0xE1, 0x00],                               // DISCONNECT with flags
    &[0x30, 0x05, 0x00, 0x02, 0xC3, 0x28, 0x00], // PUBLISH whose topic is not UTF-8
];

fn mask_all_but_first(n: usize) -> u64 {
    if n >= 64 { !1u64 } else { ((1u64 << n) - 1) & !1u64 }
}

pub struct VirtualIo {
    pub sh: Rc<RefCell<Shared>>,
    pub id: usize,
}

impl embedded_io_async::ErrorType for VirtualIo {
    type Error = ErrorKind;
}

impl embedded_io_async::Read for VirtualIo {
    async fn read(&mut self, buf: &mut [u8]) -> Result<usize, ErrorKind> {
        std::future::poll_fn(|_| self.sh.borrow_mut().on_read(self.id, buf)).await
    }
}

impl embedded_io_async::Write for VirtualIo {
    async fn write(&mut self, buf: &[u8]) -> Result<usize, ErrorKind> {
        std::future::poll_fn(|_| self.sh.borrow_mut().on_write(self.id, buf)).await
    }
    async fn flush(&mut self) -> Result<(), ErrorKind> {
        std::future::poll_fn(|_| self.sh.borrow_mut().on_flush(self.id)).await
    }
}

/// Poll `fut` to completion, letting the environment act at every `Pending`.
/// `None` = the application dropped the future (cancellation).
pub fn drive_fut<F: Future>(sh: &Rc<RefCell<Shared>>, fut: F, conn: Option<usize>, cancel_ok: bool) -> Option<F::Output> {
    let mut fut = std::pin::pin!(fut);
    let waker = noop_waker();
    let mut cx = Context::from_waker(&waker);
    sh.borrow_mut().cancel_ok = cancel_ok;
    loop {
        clock::clear_wake();
        sh.borrow_mut().pending = Pend::None;
        match fut.as_mut().poll(&mut cx) {
            Poll::Ready(v) => return Some(v),
            Poll::Pending => {
                let go = sh.borrow_mut().env_step(conn);
                if !go {
                    return None;
                }
            }
        }
    }
}

fn noop_waker() -> Waker {
    fn clone(_: *const ()) -> RawWaker {
        RawWaker::new(std::ptr::null(), &VTABLE)
    }
    fn noop(_: *const ()) {}
    static VTABLE: RawWakerVTable = RawWakerVTable::new(clone, noop, noop, noop);
    unsafe { Waker::from_raw(RawWaker::new(std::ptr::null(), &VTABLE)) }
}

// ---------------------------------------------------------------------------------------------
// The world
// ---------------------------------------------------------------------------------------------

pub struct Handle {
    pub op: Op,
    pub seq: u8,
    pub epoch: u32,
}

/// Called at operation boundaries (beyond the replayed prefix) with the state key and the
/// remaining deviation budget; returns true if the state was already explored with at least this
/// budget, in which case the execution stops here.
pub type VisitFn<'a> = &'a dyn Fn(u128, u32) -> bool;

/// One program-level decision of an execution (what the application did, independent of menus).
#[derive(Clone, Debug, PartialEq, Eq)]
pub enum PStep {
    Connect,
    EndSession,
    EndConn,
    Op { op: OpK, args: Vec<usize>, skip: bool, pend_at: Option<u32> },
}

pub struct World<'v> {
    /// decisions taken, in order
    pub program: Vec<PStep>,
    /// when set, program-level decisions come from here instead of the chooser (twin runs)
    pub script: Option<VecDeque<PStep>>,
    pub cur_args: VecDeque<usize>,
    /// operations dropped by a chosen cancellation: (index into `program`, kind, request number)
    pub cancelled: Vec<(usize, OpK, Option<u8>)>,
    /// program indices of cancelled disconnect() calls of which the transport had accepted nothing
    pub clean_disconnects: Vec<usize>,
    pub results: Vec<(OpK, Res)>,
    /// session bookkeeping when the benign continuation ended: (publish-quiescent, retained,
    /// awaiting PUBCOMP, queued acknowledgements, inbound QoS 2 identifiers pending, send quota)
    pub final_state: Option<(bool, usize, usize, usize, usize, u16)>,
    pub sh: Rc<RefCell<Shared>>,
    pub cfg: Rc<Cfg>,
    pub handles: Vec<Handle>,
    pub ops_done: usize,
    pub conns_done: usize,
    pub reqs_done: usize,
    pub visit: Option<VisitFn<'v>>,
    pub pruned: bool,
    pub states: u32,
    pub dead_since: Option<(u32, u32, u32)>,
    /// the dead handle of the current connection has been probed with invalid requests
    pub dead_probed: bool,
    pub outcome_sig: u64,
    pub last_connect_failed: bool,
    pub need_reconnect_drain: bool,
    /// chosen opening and position in it
    pub prelude: Option<(usize, usize)>,
    /// twin runs: the scripted program did not fit this run (connect() results differ)
    pub twin_out_of_step: Option<String>,
    /// twin script: where the current operation is to be dropped
    pub cur_pend_at: Option<u32>,
    /// operations dropped at a pending write: (index into `program`, write call index, previous write partial)
    pub drops: Vec<(usize, u32, bool)>,
}

#[derive(Copy, Clone, PartialEq, Eq, Debug)]
enum ConnEnd {
    Finished,
    Drop,
    Forget,
    IntoInner,
}

pub struct RunResult {
    pub points: Vec<Point>,
    pub violations: Vec<Violation>,
    pub trace: Option<Vec<String>>,
    pub pruned: bool,
    pub diverged: Option<String>,
    pub states: u32,
    pub panic: Option<String>,
    pub outcome_sig: u64,
    pub spent: u32,
    pub io_calls: u32,
    pub obs: crate::oracle::Obs,
    pub results: Vec<(OpK, Res)>,
    pub tx: Vec<Vec<u8>>,
    pub program: Vec<PStep>,
    pub cancelled: Vec<(usize, OpK, Option<u8>)>,
    /// per cancelled operation: nothing of it was enqueued or offered
    pub cancelled_without_trace: Vec<bool>,
    pub final_state: Option<(bool, usize, usize, usize, usize, u16)>,
    pub cover: u64,
    pub twin_out_of_step: Option<String>,
    pub drops: Vec<(usize, u32, bool)>,
}

struct ConnCtx {
    id: usize,
}

impl<'v> World<'v> {
    fn log(&self, f: impl FnOnce() -> String) {
        self.sh.borrow_mut().log(f);
    }

    fn note_outcome(&mut self, x: impl Hash) {
        let mut h = std::collections::hash_map::DefaultHasher::new();
        self.outcome_sig.hash(&mut h);
        x.hash(&mut h);
        self.outcome_sig = h.finish();
    }

    /// Poll `fut` to completion, letting the environment act at every `Pending`.
    fn drive<F: Future>(&self, fut: F, conn: Option<usize>, cancel_ok: bool) -> Option<F::Output> {
        let allowed = match (&self.cfg.cancel_only, self.sh.borrow().oracle.cur_op) {
            (Some(list), Some((name, _))) => list.iter().any(|o| o.name() == name),
            _ => true,
        };
        drive_fut(&self.sh, fut, conn, cancel_ok && allowed)
    }

    fn choose(&self, kind: u8, n: usize) -> usize {
        if n <= 1 {
            return 0;
        }
        self.sh.borrow_mut().ch.choose(kind, n, 0)
    }

    fn decide_prog(&mut self, can_connect: bool) -> bool {
        let go = if let Some(sc) = &mut self.script {
            match sc.pop_front() {
                Some(PStep::Connect) => true,
                Some(PStep::EndSession) | None => false,
                Some(other) => {
                    // the recorded run made calls on a connection this run never got (its connect() failed):
                    // the two runs differ in the result of connect(); skip that connection's part
                    self.twin_out_of_step = Some(format!("this run's connect() failed where the other run went on with {:?}", other));
                    while let Some(step) = sc.pop_front() {
                        if matches!(step, PStep::EndConn) {
                            break;
                        }
                    }
                    match sc.pop_front() {
                        Some(PStep::Connect) => true,
                        _ => false,
                    }
                }
            }
        } else if can_connect {
            self.choose(K_PROG, 2) == 1
        } else {
            false
        };
        self.program.push(if go { PStep::Connect } else { PStep::EndSession });
        go
    }

    /// `None` = end of this connection's part of the program.
    fn decide_op(&mut self, menu: &[OpK]) -> Option<(OpK, bool)> {
        let r = if let Some(sc) = &mut self.script {
            match sc.pop_front() {
                Some(PStep::Op { op, args, skip, pend_at }) => {
                    self.cur_args = args.into();
                    self.cur_pend_at = pend_at;
                    Some((op, skip))
                }
                Some(PStep::EndConn) | None => None,
                Some(other) => {
                    // the recorded run never got this connection (its connect() failed): nothing to do on it
                    self.twin_out_of_step = Some(format!("this run's connect() succeeded where the other run's failed (next recorded step {:?})", other));
                    sc.push_front(other);
                    None
                }
            }
        } else if let Some(op) = self.next_prelude_op() {
            Some((op, false))
        } else {
            let pick = self.choose(K_CONN, menu.len() + 1);
            if pick == 0 { None } else { Some((menu[pick - 1], false)) }
        };
        self.program.push(match r {
            Some((op, skip)) => PStep::Op { op, args: Vec::new(), skip, pend_at: None },
            None => PStep::EndConn,
        });
        r
    }

    /// Fixed opening of the first connection (`Cfg::preludes`): which one is a free choice, its
    /// operations are not.
    fn next_prelude_op(&mut self) -> Option<OpK> {
        if self.cfg.preludes.is_empty() || self.conns_done > 1 {
            return None;
        }
        if self.prelude.is_none() {
            let k = self.choose(K_VARIANT, self.cfg.preludes.len());
            self.log(|| format!("program: opening {}", k));
            self.prelude = Some((k, 0));
        }
        let (k, pos) = self.prelude.unwrap();
        let op = self.cfg.preludes[k].get(pos).copied();
        if op.is_some() {
            self.prelude = Some((k, pos + 1));
        }
        op
    }

    fn decide_arg(&mut self, n: usize) -> usize {
        // (arguments with a single possible value are recorded too, so that twin scripts line up)
        let i = if self.script.is_some() {
            let i = self.cur_args.pop_front().expect("machinery: twin script lacks an argument");
            assert!(i < n.max(1), "machinery: twin script argument out of range");
            i
        } else if n > 1 {
            self.choose(K_ARG, n)
        } else {
            0
        };
        if let Some(PStep::Op { args, .. }) = self.program.last_mut() {
            args.push(i);
        }
        i
    }

    /// Packet identifiers of requests still waiting for their final acknowledgement.
    fn live_ids(&self) -> Vec<u16> {
        let sh = self.sh.borrow();
        let epoch = sh.oracle.epoch;
        let mut v: Vec<u16> = sh.oracle.reqs.iter().filter(|r| r.live(epoch)).filter_map(|r| r.pid).collect();
        v.sort();
        v.dedup();
        v
    }

    fn ops_left(&self) -> usize {
        self.cfg.max_ops.saturating_sub(self.ops_done)
    }

    // -----------------------------------------------------------------------------------------

    pub fn run_program(&mut self, session: &mut Session<'_>) {
        loop {
            if self.pruned {
                return;
            }
            self.boundary_session(session);
            if self.pruned {
                return;
            }
            let can_connect = self.ops_left() > 0 && self.conns_done < self.cfg.max_conns;
            let go = self.decide_prog(can_connect);
            if !go {
                self.log(|| "program: end".to_string());
                break;
            }
            self.ops_done += 1;
            self.conns_done += 1;
            let ended = self.connect_and_run(session, false);
            if ended {
                return;
            }
        }
        if self.cfg.drain && !self.pruned {
            self.drain_disconnected(session);
        }
    }

    fn new_io(&self) -> (VirtualIo, usize) {
        let mut sh = self.sh.borrow_mut();
        sh.conns.push(ConnIo::default());
        let id = sh.oracle.conn_open();
        assert_eq!(id, sh.conns.len() - 1);
        sh.broker.conn_open();
        (
            VirtualIo {
                sh: self.sh.clone(),
                id,
            },
            id,
        )
    }

    /// Returns true when the whole execution (including drain) has finished inside.
    fn connect_and_run(&mut self, session: &mut Session<'_>, draining: bool) -> bool {
        let (io, id) = self.new_io();
        self.log(|| format!("api: connect (transport c{})", id));
        self.sh.borrow_mut().oracle.op_begin("connect", None);
        { let mut shx = self.sh.borrow_mut(); shx.op_calls = 0; shx.zero_latched = false; }
        let cancel_connect = self.cfg.cancel_connect;
        let r = self.drive(session.connect(io), Some(id), cancel_connect);
        match r {
            None => {
                self.log(|| "api: connect cancelled".to_string());
                self.sh.borrow_mut().oracle.op_end(None, true);
                self.sh.borrow_mut().close_conn(id);
                self.last_connect_failed = true;
                self.note_outcome(("connect", Res::Cancelled));
                false
            }
            Some(Err(e)) => {
                let res = Res::from_err(&e);
                self.log(|| format!("api: connect -> Err({:?})", res));
                // a refused CONNACK is reported by connect() itself; it is not an acknowledgement of a request
                self.sh.borrow_mut().oracle.op_end(None, false);
                self.sh.borrow_mut().close_conn(id);
                self.last_connect_failed = true;
                self.note_outcome(("connect", res));
                let free = self.cfg.tx.saturating_sub(session.verif_runtime().tx_used);
                self.check_connect_result(id, Err(res), draining, free);
                false
            }
            Some(Ok(mut conn)) => {
                let ev = conn.connect_event();
                self.log(|| format!("api: connect -> Ok({:?})", ev));
                self.sh.borrow_mut().oracle.op_end(None, false);
                self.last_connect_failed = false;
                self.note_outcome(("connect", ev == ConnectEvent::Reconnected));
                self.check_connect_result(id, Ok(ev), draining, 0);
                if ev == ConnectEvent::Connected {
                    // a fresh broker session has nothing in flight: its whole window must be available
                    // (read back through the hook; the window itself is min(Receive Maximum, 8))
                    let quota = conn.session().verif_runtime().send_quota as u32;
                    let mut sh = self.sh.borrow_mut();
                    let want = sh.oracle.conns[id].receive_max.min(8);
                    if quota != want {
                        let d = format!(
                            "connect() reports a fresh session (nothing in flight) but only {} of {} send-window slots are available on connection {}",
                            quota, want, id
                        );
                        sh.oracle.flag("C12", "R5-fresh-session-window-short", "connect", d.clone());
                        sh.oracle.flag("C06", "M4-fresh-session-window-wrong", "connect", d.clone());
                        sh.oracle.flag("C05", "S3-fresh-session-window-wrong", "connect", d);
                    }
                }
                if let Some(pid) = self.cfg.start_pid {
                    if self.conns_done == 1 && !draining {
                        conn.verif_session_mut().verif_set_next_packet_id(pid);
                    }
                }
                self.dead_since = None;
                self.dead_probed = false;
                if draining {
                    self.drain_connected(&mut conn, id, true);
                    true
                } else {
                    match self.run_connection(&mut conn, id) {
                        ConnEnd::Finished => true,
                        ConnEnd::Drop => {
                            drop(conn);
                            false
                        }
                        ConnEnd::Forget => {
                            std::mem::forget(conn);
                            false
                        }
                        ConnEnd::IntoInner => {
                            let _io = conn.into_inner();
                            false
                        }
                    }
                }
            }
        }
    }

    fn check_connect_result(&mut self, id: usize, r: Result<ConnectEvent, Res>, draining: bool, arena_free: usize) {
        let mut sh = self.sh.borrow_mut();
        let connack = sh.oracle.conns[id].connack;
        let consumed = sh.oracle.conns[id].connack_consumed;
        match (r, connack) {
            (Ok(ev), Some((sp, 0))) if consumed => {
                let want = if sp {
                    ConnectEvent::Reconnected
                } else {
                    ConnectEvent::Connected
                };
                if ev != want {
                    sh.oracle.flag(
                        "C05",
                        "S3-connect-event",
                        if sp { "resumed" } else { "fresh" },
                        format!("CONNACK session_present={} but connect() yields {:?}", sp, ev),
                    );
                }
            }
            (Ok(ev), other) => {
                sh.oracle.flag(
                    "C05",
                    "S3-connect-without-connack",
                    "connect",
                    format!("connect() yields {:?} but the CONNACK consumed was {:?}", ev, other),
                );
            }
            (Err(res), _) if draining => {
                let need = sh.oracle.last_connect_len;
                let ctx = if res == Res::BufferTooSmall && need > 0 && arena_free < need {
                    "BufferTooSmall-retained-packets-leave-less-arena-than-CONNECT-needs".to_string()
                } else {
                    format!("{:?}", res)
                };
                sh.oracle.flag(
                    "C12",
                    "R1-connect-fails",
                    &ctx,
                    format!("connect() over a healthy transport to a conformant broker fails with {:?}", res),
                );
            }
            _ => {}
        }
    }

    fn sample_status(&mut self, q: &dyn Fn(&Op) -> (bool, bool, bool), when: &str) {
        let mut sh = self.sh.borrow_mut();
        for h in &self.handles {
            let (p, c, i) = q(&h.op);
            let actual = match (p, c, i) {
                (true, false, false) => Some(Status::Pending),
                (false, true, false) => Some(Status::Complete),
                (false, false, true) => Some(Status::Invalidated),
                _ => None,
            };
            let want = sh.oracle.expected_status(h.seq, h.epoch);
            let kind = sh.oracle.reqs[h.seq as usize].kind;
            match actual {
                None => sh.oracle.flag(
                    "C18",
                    "status-inconsistent",
                    kind.name(),
                    format!("handle of request {} reports pending={} complete={} invalidated={}", h.seq, p, c, i),
                ),
                Some(a) if a != want => {
                    // a completed request whose identifier has meanwhile been handed out again (the counter went
                    // round) and is in flight for the later request: named separately
                    let epoch = sh.oracle.epoch;
                    let pid = sh.oracle.reqs[h.seq as usize].pid;
                    let reused = want == Status::Complete
                        && a == Status::Pending
                        && pid.is_some()
                        && sh.oracle.reqs.iter().enumerate().any(|(k, r)| k != h.seq as usize && r.pid == pid && r.live(epoch) && !r.done);
                    let ctx = if reused { "identifier-handed-out-again-after-the-counter-went-round" } else { kind.name() };
                    sh.oracle.flag(
                        "C18",
                        &format!("status-{:?}-expected-{:?}", a, want),
                        ctx,
                        format!("{}: handle of request {} reports {:?}, reference model says {:?}", when, h.seq, a, want),
                    );
                    if want == Status::Invalidated {
                        // C05: once the broker reported no session all earlier handles report invalidated
                        sh.oracle.flag(
                            "C05",
                            "S3-handle-not-invalidated",
                            kind.name(),
                            format!("{}: a fresh broker session replaced the one request {} was made in, but its handle reports {:?}", when, h.seq, a),
                        );
                    }
                }
                _ => {}
            }
        }
    }

    fn key_common(&self, h: &mut impl Hasher) {
        let sh = self.sh.borrow();
        sh.oracle.digest(h);
        sh.broker.digest(h);
        if let Some(c) = sh.conns.last() {
            c.hash(h);
        }
        sh.conns.len().hash(h);
        self.ops_done.hash(h);
        self.conns_done.hash(h);
        self.prelude.hash(h);
        self.reqs_done.hash(h);
        self.handles.len().hash(h);
        for hd in &self.handles {
            hd.seq.hash(h);
            hd.epoch.hash(h);
        }
        self.dead_since.is_some().hash(h);
        self.last_connect_failed.hash(h);
    }

    fn visit_key(&mut self, key: u128) {
        let (beyond, budget) = {
            let sh = self.sh.borrow();
            (!sh.ch.in_prefix(), sh.budget.saturating_sub(sh.ch.spent))
        };
        if !beyond {
            return;
        }
        self.states += 1;
        if let Some(v) = self.visit {
            let seen = v(key, budget);
            if self.cfg.prune && seen {
                self.pruned = true;
                self.log(|| "state already explored: execution merged".to_string());
            }
        }
    }

    fn boundary_session(&mut self, session: &mut Session<'_>) {
        if self.cfg.poison {
            session.verif_poison_dead_bytes(0xA5);
        }
        let q = |op: &Op| (session.is_pending(op), session.is_complete(op), session.is_invalidated(op));
        self.sample_status(&q, "between connections");
        let mut h = Fp::new();
        session.verif_fingerprint(&mut |b| h.write(b));
        0u8.hash(&mut h);
        self.key_common(&mut h);
        let key = h.finish128();
        self.visit_key(key);
    }

    fn boundary_conn(&mut self, conn: &mut Connection<'_, '_, VirtualIo>) {
        if self.cfg.poison {
            conn.verif_session_mut().verif_poison_dead_bytes(0xA5);
        }
        {
            let c: &Connection<'_, '_, VirtualIo> = conn;
            let q = |op: &Op| (c.is_pending(op), c.is_complete(op), c.is_invalidated(op));
            self.sample_status(&q, "after an operation");
        }
        let mut h = Fp::new();
        conn.session().verif_fingerprint(&mut |b| h.write(b));
        1u8.hash(&mut h);
        conn.is_connected().hash(&mut h);
        self.key_common(&mut h);
        let key = h.finish128();
        self.visit_key(key);
    }

    fn io_counters(&self, id: usize) -> (u32, u32, u32) {
        let sh = self.sh.borrow();
        (sh.conns[id].reads, sh.conns[id].writes, sh.conns[id].flushes)
    }

    /// Property C11 bookkeeping after an operation returned `res`.
    fn after_op_c11(&mut self, conn: &Connection<'_, '_, VirtualIo>, id: usize, op: OpK, res: Res, before: (u32, u32, u32)) {
        let after = self.io_counters(id);
        if self.dead_since.is_some() {
            let ok_result = match op {
                OpK::Disconnect | OpK::MarkDead => res == Res::Ok,
                _ => res == Res::Disconnected,
            };
            let mut sh = self.sh.borrow_mut();
            if !ok_result {
                sh.oracle.flag(
                    "C11",
                    "dead-handle-result",
                    op.name(),
                    format!("{} on a dead handle returned {:?}", op.name(), res),
                );
            }
            if after != before {
                sh.oracle.flag(
                    "C11",
                    "dead-handle-io",
                    op.name(),
                    format!("{} on a dead handle touched the transport: {:?} -> {:?}", op.name(), before, after),
                );
            }
        } else {
            // a broker DISCONNECT that the operation consumed ends the connection whatever the result says
            let peer_closed = self.sh.borrow().oracle.conns[id].peer_disconnect_consumed;
            // a disconnect() dropped after the transport accepted part of the DISCONNECT has been "called"
            // for good: nothing may follow those bytes
            let disc_begun = op == OpK::Disconnect && res == Res::Cancelled && self.sh.borrow().oracle.conns[id].disc_cancelled;
            let now_dead = peer_closed || res.fatal() || disc_begun || op == OpK::MarkDead || (op == OpK::Disconnect && matches!(res, Res::Ok | Res::Transport));
            if now_dead {
                self.dead_since = Some(after);
                let mut sh = self.sh.borrow_mut();
                if res == Res::Disconnected && !peer_closed && !sh.conns[id].closed && self.cfg.keepalive > 0 {
                    sh.oracle.reach(8);
                    if sh.oracle.half_written(id) {
                        sh.oracle.reach(9);
                    }
                }
            }
        }
        if self.dead_since.is_some() {
            let live = conn.is_connected();
            let cp = conn.can_publish(QoS::AtMostOnce) || conn.can_publish(QoS::AtLeastOnce) || conn.can_publish(QoS::ExactlyOnce);
            if live || cp {
                self.sh.borrow_mut().oracle.flag(
                    "C11",
                    "dead-handle-queries",
                    op.name(),
                    format!("after a fatal result is_connected()={} can_publish()={}", live, cp),
                );
            }
        }
    }

    fn run_connection(&mut self, conn: &mut Connection<'_, '_, VirtualIo>, id: usize) -> ConnEnd {
        loop {
            if self.pruned {
                return ConnEnd::Finished;
            }
            self.boundary_conn(conn);
            if self.pruned {
                return ConnEnd::Finished;
            }
            let mut menu: Vec<OpK> = Vec::new();
            if self.ops_left() > 0 {
                for op in &self.cfg.ops {
                    let is_req = matches!(op, OpK::Pub1 | OpK::Pub2 | OpK::Sub | OpK::Unsub | OpK::Pub0);
                    if is_req && self.reqs_done >= self.cfg.max_reqs {
                        continue;
                    }
                    if *op == OpK::Age && self.live_ids().is_empty() && self.cfg.age_targets.is_empty() {
                        continue;
                    }
                    menu.push(*op);
                }
            }
            let decided = self.decide_op(&menu);
            let Some((op, skip)) = decided else {
                self.log(|| "program: end".to_string());
                if self.cfg.drain_until_dead && conn.is_connected() {
                    if !self.sh.borrow().draining {
                        self.begin_drain();
                    }
                    for _ in 0..16 {
                        { let mut shx = self.sh.borrow_mut(); shx.op_calls = 0; shx.zero_latched = false; }
                        self.sh.borrow_mut().oracle.op_begin("poll", None);
                        self.log(|| "api: poll".to_string());
                        let res = match self.drive(conn.poll(), Some(id), true) {
                            None => Res::Cancelled,
                            Some(Ok(None)) => Res::Ok,
                            Some(Ok(Some(m))) => {
                                let m = inmsg_of(&m);
                                self.sh.borrow_mut().oracle.delivered(m);
                                Res::OkMsg
                            }
                            Some(Err(e)) => Res::from_err(&e),
                        };
                        self.log(|| format!("api: poll -> {:?}", res));
                        self.sh.borrow_mut().oracle.op_end(res.rejected(), res == Res::Cancelled);
                        if res == Res::Cancelled || res.fatal() || !conn.is_connected() {
                            break;
                        }
                    }
                }
                if self.cfg.drain {
                    let done = conn.is_connected() && self.drain_connected(conn, id, false);
                    if !done {
                        // the connection was lost (or its stream is beyond repair): the application
                        // drops the handle and reconnects; that happens once `conn` is released
                        self.sh.borrow_mut().close_conn(id);
                        self.need_reconnect_drain = true;
                    }
                }
                return ConnEnd::Finished;
            };
            self.ops_done += 1;
            if skip {
                self.skip_op(id, op);
                continue;
            }
            if op.ends_connection() {
                self.log(|| format!("api: {}", op.name()));
                self.sh.borrow_mut().close_conn(id);
                self.note_outcome(op);
                return match op {
                    OpK::DropConn => ConnEnd::Drop,
                    OpK::Forget => ConnEnd::Forget,
                    _ => ConnEnd::IntoInner,
                };
            }
            self.do_op(conn, id, op);
        }
    }

    /// Twin runs: a request that the other run cancelled before anything of it existed. It keeps its
    /// request number (payloads and filters are derived from it) but is not made.
    fn skip_op(&mut self, id: usize, op: OpK) {
        self.log(|| format!("api: ({} left out: cancelled without trace in the other run)", op.name()));
        let kind = match op {
            OpK::Pub1 => Some(ReqKind::Pub1),
            OpK::Pub2 => Some(ReqKind::Pub2),
            OpK::Sub => Some(ReqKind::Sub),
            OpK::Unsub => Some(ReqKind::Unsub),
            _ => None,
        };
        if let Some(kind) = kind {
            self.reqs_done += 1;
            let seq = self.sh.borrow_mut().oracle.new_request(kind, id);
            self.sh.borrow_mut().oracle.reqs[seq as usize].outcome = Outcome::Refused;
        }
        self.cur_args.clear();
    }

    fn do_op(&mut self, conn: &mut Connection<'_, '_, VirtualIo>, id: usize, op: OpK) {
        let before = self.io_counters(id);
        {
            let mut sh = self.sh.borrow_mut();
            sh.op_calls = 0;
            sh.op_writes = 0;
            sh.zero_latched = false;
            sh.last_write_partial = false;
            sh.pend_write_info = None;
            sh.pend_at_write = self.cur_pend_at.take();
            sh.force_cancel = false;
            if self.script.is_none() && self.cfg.disconnect_dropped_unwritten && op == OpK::Disconnect {
                // the transport never takes the first byte of the DISCONNECT and the application gives up
                sh.pend_at_write = Some(0);
            }
        }
        let progress0 = self.sh.borrow().progress;
        let res = match op {
            OpK::Pub0 | OpK::Pub1 | OpK::Pub2 => {
                let qos = match op {
                    OpK::Pub0 => QoS::AtMostOnce,
                    OpK::Pub1 => QoS::AtLeastOnce,
                    _ => QoS::ExactlyOnce,
                };
                let size = {
                    let n = self.cfg.payload_sizes.len();
                    {
                        let i = self.decide_arg(n);
                        self.cfg.payload_sizes[i]
                    }
                };
                let retain = {
                    let n = self.cfg.pub_retain.len();
                    let i = self.decide_arg(n);
                    self.cfg.pub_retain[i]
                };
                let shape_ix = {
                    let n = self.cfg.pub_shapes.len();
                    let i = self.decide_arg(n);
                    self.cfg.pub_shapes[i]
                };
                let (topic, props, ref_props) = shape(shape_ix);
                self.reqs_done += 1;
                let (seq, payload) = if op == OpK::Pub0 {
                    (None, vec![0xEE; size.max(1)])
                } else {
                    let kind = if op == OpK::Pub1 { ReqKind::Pub1 } else { ReqKind::Pub2 };
                    let seq = self.sh.borrow_mut().oracle.new_request(kind, id);
                    (Some(seq), vec![seq; size])
                };
                // an empty payload cannot name its request: a one-letter topic does (the shortest PUBLISH there is)
                const LETTERS: [&str; 26] = ["A", "B", "C", "D", "E", "F", "G", "H", "I", "J", "K", "L", "M", "N", "O", "P", "Q", "R", "S", "T", "U", "V", "W", "X", "Y", "Z"];
                let (topic, props, ref_props) = match seq {
                    Some(seq) if payload.is_empty() => (LETTERS[seq as usize % 26], Vec::new(), Vec::new()),
                    _ => (topic, props, ref_props),
                };
                {
                    let want = crate::oracle::Want {
                        topic: topic.as_bytes().to_vec(),
                        payload: payload.clone(),
                        qos: qos as u8,
                        retain,
                        props: ref_props,
                        filters: vec![],
                    };
                    let mut sh = self.sh.borrow_mut();
                    match seq {
                        Some(seq) => sh.oracle.set_want(seq, want),
                        None => sh.oracle.wants_q0.push(want),
                    }
                }
                self.log(|| {
                    format!("api: {} (request {:?}, {} payload bytes, retain {}, shape {})", op.name(), seq, payload.len(), retain, shape_ix)
                });
                self.sh.borrow_mut().oracle.op_begin(op.name(), seq);
                let retained0 = conn.session().verif_runtime().retained;
                let payload_kind = {
                    let n = self.cfg.payload_kinds.len();
                    let i = self.decide_arg(n);
                    self.cfg.payload_kinds[i]
                };
                let r = match payload_kind {
                    1 => {
                        // a closure may use all of the buffer it is handed as scratch space
                        let src = payload.clone();
                        let f = move |buf: &mut [u8]| -> Result<usize, ()> {
                            if buf.len() < src.len() {
                                return Err(());
                            }
                            buf.fill(0xDD);
                            buf[..src.len()].copy_from_slice(&src);
                            Ok(src.len())
                        };
                        let mut publication = Publication::new(topic, f).qos(qos).properties(&props);
                        if retain {
                            publication = publication.retain();
                        }
                        self.log(|| "  (payload supplied by a closure)".to_string());
                        self.drive(conn.publish(publication), Some(id), op != OpK::Pub0)
                    }
                    2 if std::str::from_utf8(&payload).is_ok() => {
                        let text = String::from_utf8(payload.clone()).unwrap();
                        let mut publication = Publication::text(topic, &text).qos(qos).properties(&props);
                        if retain {
                            publication = publication.retain();
                        }
                        self.drive(conn.publish(publication), Some(id), op != OpK::Pub0)
                    }
                    _ => {
                        let mut publication = Publication::bytes(topic, &payload).qos(qos).properties(&props);
                        if retain {
                            publication = publication.retain();
                        }
                        self.drive(conn.publish(publication), Some(id), op != OpK::Pub0)
                    }
                };
                let retained1 = conn.session().verif_runtime().retained;
                let res = match &r {
                    None => Res::Cancelled,
                    Some(Ok(_)) => Res::Ok,
                    Some(Err(e)) => Res::from_pub(e),
                };
                if let Some(seq) = seq {
                    let mut sh = self.sh.borrow_mut();
                    let epoch = sh.oracle.epoch;
                    let rq = &mut sh.oracle.reqs[seq as usize];
                    rq.enq = retained1 > retained0;
                    rq.outcome = match res {
                        Res::Cancelled => Outcome::Cancelled,
                        Res::Ok => Outcome::Returned,
                        _ if rq.enq || rq.offered => Outcome::Failed,
                        _ => Outcome::Refused,
                    };
                    if let Some(Ok(Some(h))) = r {
                        rq.handle = true;
                        drop(sh);
                        self.handles.push(Handle { op: h, seq, epoch });
                    } else if let Some(Ok(None)) = r {
                        sh.oracle.flag(
                            "C18",
                            "no-handle",
                            op.name(),
                            format!("{} returned Ok without an operation handle", op.name()),
                        );
                    }
                }
                res
            }
            OpK::Sub | OpK::Unsub => {
                let kind = if op == OpK::Sub { ReqKind::Sub } else { ReqKind::Unsub };
                self.reqs_done += 1;
                let seq = self.sh.borrow_mut().oracle.new_request(kind, id);
                let count = {
                    let n = self.cfg.sub_counts.len();
                    let i = self.decide_arg(n);
                    self.cfg.sub_counts[i]
                };
                let names: Vec<String> = (0..count).map(|k| crate::oracle::filter_k(seq, k)).collect();
                self.log(|| format!("api: {} (request {}, filters {:?})", op.name(), seq, names));
                self.sh.borrow_mut().oracle.set_want(
                    seq,
                    crate::oracle::Want {
                        topic: vec![],
                        payload: vec![],
                        qos: 0,
                        retain: false,
                        props: vec![],
                        filters: names.iter().enumerate().map(|(k, f)| (f.as_bytes().to_vec(), sub_option_byte(k))).collect(),
                    },
                );
                self.sh.borrow_mut().oracle.op_begin(op.name(), Some(seq));
                let retained0 = conn.session().verif_runtime().retained;
                let r = if op == OpK::Sub {
                    let filters: Vec<TopicFilter<'_>> = names
                        .iter()
                        .enumerate()
                        .map(|(k, f)| {
                            let q = match k % 3 {
                                0 => QoS::AtMostOnce,
                                1 => QoS::AtLeastOnce,
                                _ => QoS::ExactlyOnce,
                            };
                            // the second and third filter also carry the other subscription options
                            let o = SubscriptionOptions::default().maximum_qos(q);
                            let o = match k % 3 {
                                1 => o.retain_behavior(minimq::RetainHandling::Never).ignore_local_messages(),
                                2 => o.retain_behavior(minimq::RetainHandling::IfSubscriptionDoesNotExist).retain_as_published(),
                                _ => o,
                            };
                            TopicFilter::new(f).options(o)
                        })
                        .collect();
                    self.drive(conn.subscribe(&filters, &[]), Some(id), true)
                } else {
                    let refs: Vec<&str> = names.iter().map(|s| s.as_str()).collect();
                    self.drive(conn.unsubscribe(&refs, &[]), Some(id), true)
                };
                let retained1 = conn.session().verif_runtime().retained;
                let res = match &r {
                    None => Res::Cancelled,
                    Some(Ok(_)) => Res::Ok,
                    Some(Err(e)) => Res::from_err(e),
                };
                let mut sh = self.sh.borrow_mut();
                let epoch = sh.oracle.epoch;
                let rq = &mut sh.oracle.reqs[seq as usize];
                rq.enq = retained1 > retained0;
                rq.outcome = match res {
                    Res::Cancelled => Outcome::Cancelled,
                    Res::Ok => Outcome::Returned,
                    _ if rq.enq || rq.offered => Outcome::Failed,
                    _ => Outcome::Refused,
                };
                if let Some(Ok(h)) = r {
                    rq.handle = true;
                    drop(sh);
                    self.handles.push(Handle { op: h, seq, epoch });
                }
                res
            }
            OpK::Poll | OpK::Recv | OpK::Drive => {
                self.log(|| format!("api: {}", op.name()));
                self.sh.borrow_mut().oracle.op_begin(op.name(), None);
                let mut delivered: Option<InMsg> = None;
                let res = {
                    let r = match op {
                        OpK::Poll => self.drive(conn.poll(), Some(id), true),
                        OpK::Drive => self.drive(conn.drive(), Some(id), true),
                        _ => self
                            .drive(conn.recv(), Some(id), true)
                            .map(|r| r.map(Some)),
                    };
                    match r {
                        None => Res::Cancelled,
                        Some(Ok(None)) => Res::Ok,
                        Some(Ok(Some(m))) => {
                            delivered = Some(inmsg_of(&m));
                            Res::OkMsg
                        }
                        Some(Err(e)) => Res::from_err(&e),
                    }
                };
                if let Some(m) = delivered {
                    self.log(|| format!("  delivered {:?}", m));
                    self.sh.borrow_mut().oracle.delivered(m);
                }
                self.sh.borrow_mut().oracle.check_no_missed_delivery(op.name());
                if matches!(res, Res::BufferTooSmall | Res::InflightExhausted) && !self.sh.borrow().oracle.owed_acks.is_empty() {
                    let kinds: std::collections::BTreeSet<String> =
                        self.sh.borrow().oracle.owed_acks.iter().map(|o| format!("{:?}", o.kind)).collect();
                    self.sh.borrow_mut().oracle.flag(
                        "C04",
                        "I2-ack-blocked-by-local-resources",
                        &format!("{}-{:?}", kinds.into_iter().collect::<Vec<_>>().join("+"), res),
                        format!("{} failed with {:?} while acknowledgements are owed to the broker: they must go out even when the transmit arena or the in-flight list is full", op.name(), res),
                    );
                }
                if res == Res::PacketTooLarge {
                    // poll / drive may give up with packet-too-large only because something that has to go out
                    // on this connection exceeds its Maximum Packet Size: a retained packet awaiting replay.
                    // Acknowledgements and PUBRELs are at most 5 bytes.
                    let mut sh = self.sh.borrow_mut();
                    let lim = sh.oracle.conns[id].max_packet;
                    let oversized = sh.oracle.conns[id].must_replay.iter().any(|(seq, rel)| {
                        !*rel && lim.is_some_and(|m| sh.oracle.reqs[*seq as usize].first.as_ref().is_some_and(|f| f.len() as u64 > m as u64))
                    });
                    if lim.is_none_or(|m| m >= 5) && !oversized {
                        let rels = sh.oracle.conns[id].must_replay.iter().any(|(_, rel)| *rel);
                        let d = format!(
                            "{} failed with PacketTooLarge although nothing that has to be sent on connection {} exceeds its Maximum Packet Size {:?}",
                            op.name(),
                            id,
                            lim
                        );
                        sh.oracle.flag("C03", if rels { "X3-pubrel-refused-although-it-fits" } else { "X3-fitting-packet-refused" }, op.name(), d.clone());
                        sh.oracle.flag("C02", "Q1-fitting-packet-refused", op.name(), d.clone());
                        sh.oracle.flag("C16", "P1-fitting-packet-refused", op.name(), d);
                    }
                }
                if res == Res::InflightExhausted {
                    self.sh.borrow_mut().oracle.flag(
                        "C06",
                        "M3-exchange-dropped",
                        op.name(),
                        "an inbound acknowledgement could not be handled because local in-flight metadata is exhausted".to_string(),
                    );
                }
                if res == Res::Ok && op == OpK::Poll {
                    let p1 = self.sh.borrow().progress;
                    if p1 == progress0 {
                        self.sh.borrow_mut().oracle.flag(
                            "C16",
                            "P2-no-progress",
                            "poll",
                            "poll() returned Ok(None) without reading, writing or flushing anything".to_string(),
                        );
                    }
                }
                res
            }
            OpK::Disconnect => {
                // rich families: also a DISCONNECT with a reason and properties (encoded in the arena tail)
                let with_props = self.cfg.big_connect && self.decide_arg(2) == 1;
                let illegal = self.cfg.disc_illegal && !with_props && self.decide_arg(2) == 1;
                self.log(|| {
                    format!(
                        "api: disconnect{}",
                        if with_props {
                            " (with reason string and user property)"
                        } else if illegal {
                            " (with a property that is not legal on a DISCONNECT)"
                        } else {
                            ""
                        }
                    )
                });
                let form = if self.cfg.disc_forms && !with_props && !illegal { self.decide_arg(5) } else { 0 };
                if form != 0 {
                    self.log(|| format!("  (form {}: 1 = disconnect_with(success), 2 / 3 = with Session Expiry Interval 300 / maximum, 4 = with reason 0x04 and Session Expiry Interval 1)", form));
                }
                self.sh.borrow_mut().oracle.op_begin("disconnect", None);
                let disc_props = [Property::ReasonString("closing for maintenance"), Property::UserProperty("k", "v")];
                let bad_props = [Property::PayloadFormatIndicator(1)];
                let keep_a = [Property::SessionExpiryInterval(300)];
                let keep_b = [Property::SessionExpiryInterval(u32::MAX)];
                let keep_c = [Property::SessionExpiryInterval(1), Property::UserProperty("k", "v")];
                let r = if form != 0 {
                    let d = match form {
                        1 => minimq::Disconnect::success(),
                        2 => minimq::Disconnect::success().with_properties(&keep_a),
                        3 => minimq::Disconnect::success().with_properties(&keep_b),
                        _ => minimq::Disconnect::with_reason(minimq::ReasonCode::DisconnectWithWill).with_properties(&keep_c),
                    };
                    self.drive(conn.disconnect_with(d), Some(id), true)
                } else if with_props {
                    let d = minimq::Disconnect::with_reason(minimq::ReasonCode::DisconnectWithWill).with_properties(&disc_props);
                    self.drive(conn.disconnect_with(d), Some(id), true)
                } else if illegal {
                    let d = minimq::Disconnect::success().with_properties(&bad_props);
                    self.drive(conn.disconnect_with(d), Some(id), true)
                } else {
                    self.drive(conn.disconnect(), Some(id), true)
                };
                match r {
                    None => {
                        // only a DISCONNECT of which the transport has accepted something matters
                        let mut sh = self.sh.borrow_mut();
                        let m = &mut sh.oracle.conns[id];
                        if m.disconnect_done || (m.cur_off > 0 && m.cur.as_ref().is_some_and(|p| p[0] == 0xE0)) {
                            m.disc_cancelled = true;
                        } else {
                            drop(sh);
                            self.clean_disconnects.push(self.program.len() - 1);
                        }
                        Res::Cancelled
                    }
                    Some(Ok(())) => Res::Ok,
                    Some(Err(e)) => Res::from_err(&e),
                }
            }
            OpK::Sleep => {
                let n = self.cfg.sleeps.len();
                let i = self.decide_arg(n);
                let ms = self.cfg.sleeps[i];
                clock::advance_ms(ms);
                self.log(|| format!("app: idle for {} ms (clock {} ms)", ms, clock::now_ms()));
                self.sh.borrow_mut().oracle.op_begin("sleep", None);
                Res::Ok
            }
            OpK::Age => {
                let live = self.live_ids();
                let mut ids = live.clone();
                for d in self.cfg.age_aliases.clone() {
                    for l in &live {
                        // identifiers live in 1..=65535
                        let t = ((*l as u32 - 1 + d as u32) % 65535 + 1) as u16;
                        if !ids.contains(&t) {
                            ids.push(t);
                        }
                    }
                }
                for t in self.cfg.age_targets.clone() {
                    if !ids.contains(&t) {
                        ids.push(t);
                    }
                }
                let i = self.decide_arg(ids.len());
                let target = ids[i];
                let from = conn.session().verif_runtime().next_packet_id;
                let steps = (target as u32 + 65535 - from as u32) % 65535;
                self.log(|| {
                    format!(
                        "app: {} locally failing requests later the identifier counter has gone from {} round to {}{}",
                        steps,
                        from,
                        target,
                        if live.contains(&target) { " (still in flight)" } else if self.cfg.age_targets.contains(&target) { " (a listed value)" } else { " (aliases an identifier in flight modulo a power of two)" }
                    )
                });
                conn.verif_session_mut().verif_set_next_packet_id(target);
                self.sh.borrow_mut().oracle.op_begin("age", None);
                Res::Ok
            }
            OpK::MarkDead => {
                self.log(|| "api: handle_disconnect".to_string());
                self.sh.borrow_mut().oracle.op_begin("handle_disconnect", None);
                conn.handle_disconnect();
                Res::Ok
            }
            OpK::DropConn | OpK::Forget | OpK::IntoInner => unreachable!(),
        };
        self.log(|| format!("api: {} -> {:?}", op.name(), res));
        self.results.push((op, res));
        if res == Res::Cancelled {
            let mut sh = self.sh.borrow_mut();
            if sh.oracle.half_written(id) {
                sh.oracle.reach(16);
            }
            // consumed 2..=3 bytes of a packet whose fixed header has 3 bytes: between its length bytes
            if sh.conns[id].emitted.front().is_some_and(|f| f.2 >= 130 && f.2 - f.1 == 2) {
                sh.oracle.reach(7);
            }
        }
        if matches!(res, Res::NotReady) && matches!(op, OpK::Pub1 | OpK::Pub2) {
            self.sh.borrow_mut().oracle.reach(13);
        }
        if res == Res::Cancelled && !self.sh.borrow().last_cancel_forced {
            let seq = self.sh.borrow().oracle.cur_op.and_then(|c| c.1);
            self.cancelled.push((self.program.len() - 1, op, seq));
            if let Some((w, prev_partial)) = self.sh.borrow_mut().pend_write_info.take() {
                self.drops.push((self.program.len() - 1, w, prev_partial));
            }
        }
        self.sh.borrow_mut().pend_at_write = None;
        self.sh.borrow_mut().oracle.op_end(res.rejected(), res == Res::Cancelled);
        self.note_outcome((op, res));
        if op != OpK::Sleep && op != OpK::Age {
            self.after_op_c11(conn, id, op, res, before);
            if self.dead_since.is_some() && !self.dead_probed && self.cfg.props.contains(&"C11") {
                self.dead_probed = true;
                self.probe_dead_handle_with_invalid_requests(conn, id);
            }
        }
    }

    /// Requests that would be refused locally on a live handle, made on a dead one: the answer is the disconnected
    /// error all the same, and nothing touches the transport.
    fn probe_dead_handle_with_invalid_requests(&mut self, conn: &mut Connection<'_, '_, VirtualIo>, id: usize) {
        fn once<F: Future>(fut: F) -> Option<F::Output> {
            let mut fut = std::pin::pin!(fut);
            let waker = noop_waker();
            let mut cx = Context::from_waker(&waker);
            match fut.as_mut().poll(&mut cx) {
                Poll::Ready(v) => Some(v),
                Poll::Pending => None,
            }
        }
        let before = self.io_counters(id);
        let bad = [Property::ServerReference("x")];
        let no_filters: [minimq::TopicFilter<'_>; 0] = [];
        let no_topics: [&str; 0] = [];
        let mut results: Vec<(&'static str, Option<Res>)> = Vec::new();
        results.push(("subscribe to an empty list", once(conn.subscribe(&no_filters, &[])).map(|r| r.map(|_| ()).map_err(|e| Res::from_err(&e)).err().unwrap_or(Res::Ok))));
        results.push(("unsubscribe from an empty list", once(conn.unsubscribe(&no_topics, &[])).map(|r| r.map(|_| ()).map_err(|e| Res::from_err(&e)).err().unwrap_or(Res::Ok))));
        results.push(("subscribe with an illegal property", once(conn.subscribe(&[minimq::TopicFilter::new("f")], &bad)).map(|r| r.map(|_| ()).map_err(|e| Res::from_err(&e)).err().unwrap_or(Res::Ok))));
        results.push(("unsubscribe with an illegal property", once(conn.unsubscribe(&["f"], &bad)).map(|r| r.map(|_| ()).map_err(|e| Res::from_err(&e)).err().unwrap_or(Res::Ok))));
        for q in [QoS::AtMostOnce, QoS::AtLeastOnce, QoS::ExactlyOnce] {
            results.push(("publish with an illegal property", once(conn.publish(minimq::Publication::bytes("t", b"x").qos(q).properties(&bad))).map(|r| r.map(|_| ()).map_err(|e| Res::from_pub(&e)).err().unwrap_or(Res::Ok))));
        }
        let after = self.io_counters(id);
        let mut sh = self.sh.borrow_mut();
        for (what, r) in results {
            if r != Some(Res::Disconnected) {
                sh.oracle.flag("C11", "dead-handle-result", "invalid-request", format!("{} on a dead handle returned {:?}", what, r));
            }
        }
        if after != before {
            sh.oracle.flag("C11", "dead-handle-io", "invalid-request", format!("invalid requests on a dead handle touched the transport: {:?} -> {:?}", before, after));
        }
    }

    // -----------------------------------------------------------------------------------------
    // Benign continuation (properties C12 and C16, and the "exactly once by the end" rules)
    // -----------------------------------------------------------------------------------------

    fn begin_drain(&mut self) {
        let mut sh = self.sh.borrow_mut();
        sh.draining = true;
        sh.ch.frozen = true;
        sh.log(|| "---- benign continuation ----".to_string());
    }

    fn drain_disconnected(&mut self, session: &mut Session<'_>) {
        self.begin_drain();
        let done = self.connect_and_run(session, true);
        if !done {
            // one retry is allowed to fail only if the first attempt failed benignly: it must not
            let done2 = self.connect_and_run(session, true);
            let _ = done2;
        }
    }

    /// Poll under a benign environment until quiescent. Returns false (without a verdict) when
    /// the connection turned out to be lost and a reconnect is still allowed.
    fn drain_connected(&mut self, conn: &mut Connection<'_, '_, VirtualIo>, id: usize, last_chance: bool) -> bool {
        if !self.sh.borrow().draining {
            self.begin_drain();
        }
        let budget = {
            let sh = self.sh.borrow();
            let live = sh.oracle.reqs.iter().filter(|r| r.live(sh.oracle.epoch)).count();
            let script_left = if self.cfg.drain_script { sh.cfg.broker.script.len().saturating_sub(sh.broker.script_next) } else { 0 };
            8 + 4 * (live + sh.oracle.owed_acks.len() + sh.broker.b2c.len() + sh.broker.owed.len() + script_left)
        };
        let mut polls = 0;
        let mut last = Res::Ok;
        loop {
            if self.quiescent(conn) {
                break;
            }
            if polls >= budget {
                break;
            }
            polls += 1;
            { let mut shx = self.sh.borrow_mut(); shx.op_calls = 0; shx.zero_latched = false; }
            self.sh.borrow_mut().oracle.op_begin("poll", None);
            self.log(|| "api: poll".to_string());
            let progress0 = self.sh.borrow().progress;
            let mut delivered = None;
            let res = match self.drive(conn.poll(), Some(id), true) {
                None => Res::Cancelled,
                Some(Ok(None)) => Res::Ok,
                Some(Ok(Some(m))) => {
                    delivered = Some(inmsg_of(&m));
                    Res::OkMsg
                }
                Some(Err(e)) => Res::from_err(&e),
            };
            if let Some(m) = delivered {
                self.sh.borrow_mut().oracle.delivered(m);
            }
            self.sh.borrow_mut().oracle.check_no_missed_delivery("poll");
            self.log(|| format!("api: poll -> {:?}", res));
            self.sh.borrow_mut().oracle.op_end(res.rejected(), res == Res::Cancelled);
            if res == Res::Ok && self.sh.borrow().progress == progress0 {
                self.sh.borrow_mut().oracle.flag(
                    "C16",
                    "P2-no-progress",
                    "poll",
                    "poll() returned Ok(None) without reading, writing or flushing anything".to_string(),
                );
            }
            last = res;
            if res == Res::Cancelled || res.fatal() {
                break;
            }
            if res == Res::PacketTooLarge && !last_chance {
                // a retained packet does not fit this broker's Maximum Packet Size: nothing can move on
                // this connection; the application drops it and reconnects
                break;
            }
        }
        {
            let c: &Connection<'_, '_, VirtualIo> = conn;
            let q = |op: &Op| (c.is_pending(op), c.is_complete(op), c.is_invalidated(op));
            self.sample_status(&q, "after the benign continuation");
        }
        let quiescent = self.quiescent(conn);
        {
            let rt = conn.session().verif_runtime();
            self.final_state = Some((
                conn.session().is_publish_quiescent(),
                rt.retained,
                rt.pending_release,
                rt.pending_control,
                rt.pending_inbound_qos2,
                rt.send_quota,
            ));
        }
        if !quiescent && !last_chance {
            let sh = self.sh.borrow();
            let lost = last.fatal() || last == Res::PacketTooLarge || sh.oracle.conns[id].torn || sh.broker.conn_closed || sh.conns[id].closed;
            if lost {
                return false;
            }
        }
        let mut sh = self.sh.borrow_mut();
        if !quiescent {
            let epoch = sh.oracle.epoch;
            let stuck: Vec<String> = sh
                .oracle
                .reqs
                .iter()
                .filter(|r| r.live(epoch))
                .map(|r| format!("{}#{}", r.kind.name(), r.seq))
                .collect();
            let kinds: std::collections::BTreeSet<&'static str> = sh
                .oracle
                .reqs
                .iter()
                .filter(|r| r.live(epoch))
                .map(|r| r.kind.name())
                .collect();
            let ctx = if last.fatal() {
                format!("poll-fails-{:?}", last)
            } else if !kinds.is_empty() {
                format!("stuck-{}", kinds.into_iter().collect::<Vec<_>>().join("+"))
            } else if !sh.oracle.owed_on(id).is_empty() || !sh.broker.b2c.is_empty() {
                "owed-acks".to_string()
            } else {
                "not-quiescent".to_string()
            };
            let d = format!(
                "after {} benign polls (last result {:?}): pending requests {:?}, acks owed to broker {:?}, broker inflight {}, is_publish_quiescent={}",
                polls,
                last,
                stuck,
                sh.oracle.owed_on(id),
                sh.broker.b2c.len(),
                conn.session().is_publish_quiescent()
            );
            sh.oracle.flag("C16", "P1-not-quiescent", &ctx, d.clone());
            sh.oracle.flag("C12", "R3-not-usable", &ctx, d);
        }
        // per-property verdicts on what the benign continuation left behind
        let epoch = sh.oracle.epoch;
        let stuck: Vec<(u8, ReqKind, bool)> = sh
            .oracle
            .reqs
            .iter()
            .filter(|r| r.live(epoch))
            .map(|r| (r.seq, r.kind, r.pubrec_ok.is_some()))
            .collect();
        for (seq, kind, rec) in stuck {
            let (prop, rule) = match kind {
                ReqKind::Pub1 => ("C02", "Q1-never-acknowledged"),
                ReqKind::Pub2 => ("C03", if rec { "X3-never-completed" } else { "X3-never-received" }),
                _ => ("C05", "S4-never-acknowledged"),
            };
            sh.oracle.flag(
                prop,
                rule,
                kind.name(),
                format!(
                    "request {} is still unacknowledged after the benign continuation ({} polls, last result {:?})",
                    seq, polls, last
                ),
            );
        }
        if !sh.oracle.owed_on(id).is_empty() && !last.fatal() {
            let kinds: std::collections::BTreeSet<String> =
                sh.oracle.owed_on(id).iter().map(|o| format!("{:?}", o.kind)).collect();
            let d = format!("acknowledgements still owed to the broker after the benign continuation: {:?}", sh.oracle.owed_on(id));
            sh.oracle.flag("C04", "I2-ack-missing", &kinds.into_iter().collect::<Vec<_>>().join("+"), d);
        }
        // a PUBREL that found its identifier pending is owed a successful PUBCOMP for as long as the session lives,
        // whatever ended the connection it arrived on
        if !sh.oracle.pubcomp_success_due.is_empty() && !last.fatal() {
            let d = format!("PUBREL found identifiers {:?} pending, the session was never reset, and after the benign continuation no successful PUBCOMP has been sent for them", sh.oracle.pubcomp_success_due);
            sh.oracle.flag("C04", "I4-pending-identifier-never-released-with-success", "pubcomp", d);
        }
        // "exactly once by the end" for everything that had to be replayed on this connection
        let missing = sh.oracle.conns[id].must_replay.clone();
        let limit = sh.oracle.conns[id].max_packet;
        for (seq, as_rel) in missing {
            // Maximum Packet Size of this connection forbids the retransmission (property C14)
            let too_large = !as_rel && limit.is_some_and(|m| sh.oracle.reqs[seq as usize].first.as_ref().is_some_and(|f| f.len() as u64 > m as u64));
            if too_large {
                continue;
            }
            let kind = sh.oracle.reqs[seq as usize].kind;
            let (prop, rule) = match kind {
                ReqKind::Pub1 => ("C02", "Q1-not-replayed"),
                ReqKind::Pub2 => ("C03", if as_rel { "X3-pubrel-not-replayed" } else { "X3-publish-not-replayed" }),
                _ => ("C05", "S4-not-replayed"),
            };
            sh.oracle.flag(
                prop,
                rule,
                kind.name(),
                format!("request {} was not retransmitted on the resumed connection {} by the end of the benign continuation", seq, id),
            );
            sh.oracle.flag(
                "C05",
                "S4-not-replayed",
                kind.name(),
                format!("request {} was not retransmitted on the resumed connection {} by the end of the benign continuation", seq, id),
            );
        }
        true
    }

    fn quiescent(&self, conn: &Connection<'_, '_, VirtualIo>) -> bool {
        let sh = self.sh.borrow();
        let epoch = sh.oracle.epoch;
        let live = sh.oracle.reqs.iter().any(|r| r.live(epoch));
        let handles_ok = self
            .handles
            .iter()
            .all(|h| conn.is_complete(&h.op) || conn.is_invalidated(&h.op));
        !live
            && handles_ok
            && sh.oracle.owed_on(sh.conns.len() - 1).is_empty()
            && sh.broker.quiet()
            && (!self.cfg.drain_script || sh.broker.script_next >= sh.cfg.broker.script.len())
            && conn.session().is_publish_quiescent()
            && conn.is_connected()
    }
}

pub fn inmsg_of(m: &minimq::InboundPublish<'_>) -> InMsg {
    let mut props = Vec::new();
    for p in m.properties().iter() {
        match p {
            Ok(p) => props.push(crate::convert::prop_to_ref(&p)),
            Err(_) => props.push(mr::Prop {
                id: 0xFF,
                val: mr::PVal::Byte(0),
            }),
        }
    }
    // the application may look twice, and through the shortcuts: a second pass over the properties must give the
    // same list, and response_topic() / correlation_data() must name the first such property (a marker property
    // that no broker sends makes any disagreement show up as "delivered differs from sent")
    let mut again = Vec::new();
    for p in m.properties().iter() {
        match p {
            Ok(p) => again.push(crate::convert::prop_to_ref(&p)),
            Err(_) => again.push(mr::Prop { id: 0xFF, val: mr::PVal::Byte(0) }),
        }
    }
    if again != props {
        props.push(mr::Prop { id: 0xFE, val: mr::PVal::Byte(2) });
    }
    let first_rt = props.iter().find_map(|p| match (&p.id, &p.val) {
        (0x08, mr::PVal::Str(s)) => Some(s.clone()),
        _ => None,
    });
    let first_cd = props.iter().find_map(|p| match (&p.id, &p.val) {
        (0x09, mr::PVal::Bin(b)) => Some(b.clone()),
        _ => None,
    });
    if m.response_topic().map(|t| t.as_bytes().to_vec()) != first_rt || m.correlation_data().map(|d| d.to_vec()) != first_cd {
        props.push(mr::Prop { id: 0xFD, val: mr::PVal::Byte(3) });
    }
    InMsg {
        qos: m.qos() as u8,
        retain: m.retained(),
        topic: m.topic().as_bytes().to_vec(),
        payload: m.payload().to_vec(),
        props,
    }
}

/// 128-bit FNV-style fingerprint accumulator (two independent 64-bit lanes).
pub struct Fp {
    a: u64,
    b: u64,
}

impl Fp {
    pub fn new() -> Self {
        Fp {
            a: 0xcbf29ce484222325,
            b: 0x9e3779b97f4a7c15,
        }
    }
    pub fn finish128(&self) -> u128 {
        ((self.a as u128) << 64) | self.b as u128
    }
}

impl Hasher for Fp {
    fn write(&mut self, bytes: &[u8]) {
        for &x in bytes {
            self.a = (self.a ^ x as u64).wrapping_mul(0x100000001b3);
            self.b = (self.b.rotate_left(5) ^ x as u64).wrapping_mul(0x2545F4914F6CDD1D);
        }
        self.a = (self.a ^ 0xff).wrapping_mul(0x100000001b3);
        self.b = self.b.rotate_left(7) ^ bytes.len() as u64;
    }
    fn finish(&self) -> u64 {
        self.a ^ self.b
    }
}

// ---------------------------------------------------------------------------------------------
// Running one execution
// ---------------------------------------------------------------------------------------------

pub fn run_once(
    cfg: &Rc<Cfg>,
    prefix: &[u8],
    expect: &[(u8, u8)],
    visit: Option<VisitFn<'_>>,
    record: bool,
) -> RunResult {
    let mut r = run_inner(cfg, prefix, expect, visit, record, None);
    if cfg.twin.is_some() && !r.pruned && r.diverged.is_none() {
        compare_with_twin(cfg, &mut r, record);
    }
    r
}

/// The benign twin of `r`: same program, default environment; requests that `r` cancelled before
/// anything of them existed are left out.
fn compare_with_twin(cfg: &Rc<Cfg>, r: &mut RunResult, record: bool) {
    use crate::cfg::Twin;
    let mode = cfg.twin.unwrap();
    let dev_kinds: std::collections::BTreeSet<&'static str> = r
        .points
        .iter()
        .filter(|p| (p.cost_mask >> p.chosen) & 1 == 1)
        .map(|p| match p.kind {
            K_WRITE => "write",
            K_FLUSH => "flush",
            K_READ => "read",
            K_ENV => "env",
            _ => "other",
        })
        .collect();
    let relevant = match mode {
        Twin::Cancel => !r.cancelled.is_empty(),
        Twin::Fragment => r.spent > 0 || cfg.io.max_write > 0,
        // exactly the executions in which every dropped operation was dropped at a pending write that
        // directly follows a partial write made by the same call
        Twin::DropAtWrite => !r.cancelled.is_empty() && r.drops.len() == r.cancelled.len() && r.drops.iter().all(|d| d.2 && d.1 >= 1),
    };
    if !relevant {
        return;
    }
    let mut script: Vec<PStep> = r.program.clone();
    for ((idx, _, _), clean) in r.cancelled.iter().zip(r.cancelled_without_trace.iter()) {
        if *clean {
            if let PStep::Op { skip, .. } = &mut script[*idx] {
                *skip = true;
            }
        }
    }
    if mode == Twin::DropAtWrite {
        for (idx, w, _) in &r.drops {
            if let PStep::Op { pend_at, skip, .. } = &mut script[*idx] {
                *pend_at = Some(*w - 1);
                *skip = false;
            }
        }
    }
    let mut tcfg = (**cfg).clone();
    tcfg.props = vec![];
    tcfg.twin = None;
    tcfg.prune = false;
    if mode == Twin::Fragment {
        tcfg.io.max_write = 0;
    }
    let tcfg = Rc::new(tcfg);
    let t = run_inner(&tcfg, &[], &[], None, record, Some(script));
    if let (Some(trace), Some(tt)) = (&mut r.trace, &t.trace) {
        trace.push("==== benign twin (same program, default environment) ====".to_string());
        trace.extend(tt.iter().cloned());
    }
    if let Some(d) = &t.diverged {
        r.diverged = Some(format!("twin run: {}", d));
        return;
    }
    let mut flag = |prop: &'static str, rule: &str, ctx: &str, detail: String| {
        let sig = format!("{}:{}:{}", prop, rule, ctx);
        if !r.violations.iter().any(|v| v.sig == sig) {
            r.violations.push(Violation { prop, sig, detail });
        }
    };
    let hexes = |v: &Vec<Vec<u8>>| v.iter().map(|b| mr::hex_short(b)).collect::<Vec<_>>().join(" ");
    if let Some(why) = &t.twin_out_of_step {
        let (prop, what) = match mode {
            Twin::Cancel => ("C13", "the uncancelled run"),
            Twin::Fragment => ("C15", "the unfragmented run"),
            Twin::DropAtWrite => ("C15", "the run without the partial write"),
        };
        flag(prop, "results-differ", "connect", format!("connect() does not give the same result in {}: {}", what, why));
        return;
    }
    match mode {
        Twin::Cancel => {
            let ops: Vec<String> = r
                .cancelled
                .iter()
                .zip(r.cancelled_without_trace.iter())
                .map(|((_, op, _), clean)| format!("{}{}", op.name(), if *clean { "(no-trace)" } else { "" }))
                .collect();
            let mut ops_sorted = ops.clone();
            ops_sorted.sort();
            ops_sorted.dedup();
            let ctx = ops_sorted.join("+");
            if r.obs.requests != t.obs.requests {
                flag("C13", "requests-differ", &ctx, format!("after cancelling {:?}: client packets [{}], uncancelled run [{}]", ops, hexes(&r.obs.requests), hexes(&t.obs.requests)));
            }
            if r.obs.acks != t.obs.acks {
                flag("C13", "acks-differ", &ctx, format!("after cancelling {:?}: acknowledgements [{}], uncancelled run [{}]", ops, hexes(&r.obs.acks), hexes(&t.obs.acks)));
            }
            if r.obs.pubrels != t.obs.pubrels {
                flag("C13", "pubrels-differ", &ctx, format!("after cancelling {:?}: PUBRELs [{}], uncancelled run [{}]", ops, hexes(&r.obs.pubrels), hexes(&t.obs.pubrels)));
            }
            if r.final_state != t.final_state {
                flag("C13", "leftover-state-differs", &ctx, format!("after cancelling {:?} and the same benign continuation the session ends with (quiescent, retained, awaiting PUBCOMP, queued acks, inbound QoS 2 pending, send quota) = {:?}, the uncancelled run with {:?}", ops, r.final_state, t.final_state));
            }
            if cfg.drain_until_dead && r.obs.pings != t.obs.pings {
                flag("C13", "pingreqs-differ", &ctx, format!("after cancelling {:?}: {} PINGREQs before the unanswered keep-alive ended the connection, uncancelled run {}", ops, r.obs.pings, t.obs.pings));
            }
            if r.obs.delivered != t.obs.delivered {
                flag("C13", "deliveries-differ", &ctx, format!("after cancelling {:?}: delivered {:?}, uncancelled run {:?}", ops, r.obs.delivered, t.obs.delivered));
            }
        }
        Twin::DropAtWrite => {
            let ctx = "dropped-at-a-pending-write-after-a-partial-one";
            if r.obs.delivered != t.obs.delivered {
                flag("C15", "deliveries-differ", ctx, format!("delivered {:?}; with the write pending straight away {:?}", r.obs.delivered, t.obs.delivered));
            }
            if r.results != t.results {
                flag("C15", "results-differ", ctx, format!("operation results {:?}; with the write pending straight away {:?}", r.results, t.results));
            }
            if r.tx != t.tx {
                let a: Vec<String> = r.tx.iter().map(|b| mr::hex_short(b)).collect();
                let b: Vec<String> = t.tx.iter().map(|b| mr::hex_short(b)).collect();
                flag("C15", "outbound-stream-differs", ctx, format!("bytes accepted per connection {:?}; with the write pending straight away instead of after a partial accept {:?}", a, b));
            }
        }
        Twin::Fragment => {
            let ctx = dev_kinds.iter().cloned().collect::<Vec<_>>().join("+");
            if r.obs.delivered != t.obs.delivered {
                flag("C15", "deliveries-differ", &ctx, format!("delivered {:?}, unfragmented run {:?}", r.obs.delivered, t.obs.delivered));
            }
            if r.results != t.results {
                flag("C15", "results-differ", &ctx, format!("operation results {:?}, unfragmented run {:?}", r.results, t.results));
            }
            if r.tx != t.tx {
                let a: Vec<String> = r.tx.iter().map(|b| mr::hex_short(b)).collect();
                let b: Vec<String> = t.tx.iter().map(|b| mr::hex_short(b)).collect();
                flag("C15", "outbound-stream-differs", &ctx, format!("bytes accepted per connection {:?}, unfragmented run {:?}", a, b));
            }
        }
    }
}

pub fn run_inner(
    cfg: &Rc<Cfg>,
    prefix: &[u8],
    expect: &[(u8, u8)],
    visit: Option<VisitFn<'_>>,
    record: bool,
    script: Option<Vec<PStep>>,
) -> RunResult {
    clock::reset();
    let oracle = Oracle::new(cfg.props.clone(), cfg.client_id, cfg.rx);
    let sh = Rc::new(RefCell::new(Shared {
        ch: Chooser::new(prefix.to_vec(), expect.to_vec()),
        cfg: cfg.clone(),
        draining: false,
        conns: Vec::new(),
        broker: Broker::new(cfg.broker.clone(), cfg.expiry > 0),
        oracle,
        trace: if record { Some(Vec::new()) } else { None },
        op_calls: 0,
        pending: Pend::None,
        just_resumed: false,
        cancel_ok: false,
        budget: cfg.dev,
        progress: 0,
        env_steps: 0,
        manual: false,
        stall_next_write: false,
        stall_next_flush: false,
        op_writes: 0,
        zero_latched: false,
        last_write_partial: false,
        pend_write_info: None,
        pend_at_write: None,
        force_cancel: false,
        keep_tx: cfg.twin.is_some() || script.is_some(),
        last_cancel_forced: false,
        held: Vec::new(),
    }));
    if script.is_some() {
        sh.borrow_mut().ch.frozen = true;
    }
    let mut world = World {
        program: Vec::new(),
        script: script.map(|v| v.into()),
        cur_args: VecDeque::new(),
        cancelled: Vec::new(),
        clean_disconnects: Vec::new(),
        results: Vec::new(),
        final_state: None,
        sh: sh.clone(),
        cfg: cfg.clone(),
        handles: Vec::new(),
        ops_done: 0,
        conns_done: 0,
        reqs_done: 0,
        visit,
        pruned: false,
        states: 0,
        dead_since: None,
        dead_probed: false,
        outcome_sig: 0,
        last_connect_failed: false,
        need_reconnect_drain: false,
        prelude: None,
        twin_out_of_step: None,
        cur_pend_at: None,
        drops: Vec::new(),
    };
    let result = std::panic::catch_unwind(std::panic::AssertUnwindSafe(|| {
        let mut rx = vec![0u8; cfg.rx];
        let mut tx = vec![0u8; cfg.tx];
        let mut builder = ConfigBuilder::new(Buffers::new(&mut rx, &mut tx))
            .client_id(cfg.client_id)
            .expect("client id")
            .keepalive_interval(cfg.keepalive)
            .session_expiry_interval(cfg.expiry);
        if cfg.downgrade {
            builder = builder.autodowngrade_qos();
        }
        let will_props = [
            Property::UserProperty("origin", "mcx-harness"),
            Property::ContentType("application/octet-stream"),
            Property::MessageExpiryInterval(300),
        ];
        if cfg.big_connect {
            builder = builder
                .auth("a-user-name-of-forty-characters-in-total", &[0x5A; 48])
                .expect("auth")
                .will(
                    Will::new("status/of/the/client/with/a/long/topic/name", &[0x77; 64], &will_props)
                        .expect("will")
                        .qos(QoS::AtLeastOnce)
                        .retained(),
                )
                .expect("will");
        } else {
            if cfg.auth {
                builder = builder.auth("user", if cfg.empty_password { b"" } else { b"pw" }).expect("auth");
            }
            if cfg.will {
                builder = builder
                    .will(Will::new("w", b"bye", &[]).expect("will").qos(QoS::AtLeastOnce))
                    .expect("will");
            }
        }
        let mut session = Session::new(builder);
        world.run_program(&mut session);
        if world.need_reconnect_drain && !world.pruned {
            world.need_reconnect_drain = false;
            world.drain_disconnected(&mut session);
        }
    }));
    let mut panic_msg = None;
    if let Err(p) = result {
        let mut shb = match sh.try_borrow_mut() {
            Ok(b) => b,
            Err(_) => {
                // a panic unwound through a borrow; the RefCell is poisoned for us
                return RunResult {
                    points: Vec::new(),
                    violations: vec![],
                    trace: None,
                    pruned: false,
                    diverged: Some("machinery: panic while the shared state was borrowed".into()),
                    states: 0,
                    panic: Some(panic_text(&p)),
                    outcome_sig: 0,
                    spent: 0,
                    io_calls: 0,
                    obs: Default::default(),
                    results: Vec::new(),
                    tx: Vec::new(),
                    program: Vec::new(),
                    cancelled: Vec::new(),
                    cancelled_without_trace: Vec::new(),
                    final_state: None,
                    cover: 0,
                    twin_out_of_step: None,
                    drops: Vec::new(),
                };
            }
        };
        if let Some(w) = p.downcast_ref::<Watchdog>() {
            let op = shb.oracle.cur_op.map(|c| c.0).unwrap_or("idle");
            let calls = shb.cfg.watchdog_calls;
            shb.oracle.flag(
                "C16",
                "P3-unbounded-loop",
                op,
                format!("{} exceeded {} transport calls / environment steps (last: {})", op, calls, w.0),
            );
            let nconn = shb.oracle.conns.len();
            if nconn > 1 {
                shb.oracle.flag(
                    "C12",
                    "R3-not-usable",
                    &format!("{}-never-returns-on-a-later-connection", op),
                    format!("on connection {} {} exceeded {} transport calls / environment steps (last: {}): the session is not usable", nconn - 1, op, calls, w.0),
                );
            }
            shb.oracle.flag(
                "C07",
                "unbounded-loop",
                op,
                format!("{} exceeded {} transport calls (last: {})", op, calls, w.0),
            );
            shb.log(|| format!("WATCHDOG: operation exceeded the I/O budget at {}", w.0));
        } else {
            let text = panic_text(&p);
            if text.starts_with("machinery:") {
                panic_msg = Some(text);
            } else {
                let op = shb.oracle.cur_op.map(|c| c.0).unwrap_or("idle");
                let class = panic_class(&text);
                let props = shb.oracle.props.clone();
                for prop in props {
                    shb.oracle.flag(prop, "PANIC", &format!("{}-{}", op, class), format!("client code panicked: {}", text));
                }
                shb.log(|| format!("PANIC: {}", text));
            }
        }
    }
    let mut shb = sh.borrow_mut();
    let cancelled_without_trace: Vec<bool> = world
        .cancelled
        .iter()
        .map(|(idx, _, seq)| match seq {
            Some(seq) => {
                let rq = &shb.oracle.reqs[*seq as usize];
                !rq.enq && !rq.offered
            }
            None => world.clean_disconnects.contains(idx),
        })
        .collect();
    let tx: Vec<Vec<u8>> = shb.conns.iter().map(|c| c.tx_log.clone()).collect();
    if let Some(i) = shb.oracle.witness {
        if let Some(p) = shb.oracle.props.first().copied() {
            shb.oracle.flag(p, "WITNESS", "situation", format!("reached: {}", crate::oracle::SITUATIONS[i]));
        }
    }
    RunResult {
        obs: std::mem::take(&mut shb.oracle.obs),
        results: std::mem::take(&mut world.results),
        tx,
        program: std::mem::take(&mut world.program),
        cancelled: std::mem::take(&mut world.cancelled),
        cancelled_without_trace,
        final_state: world.final_state,
        cover: shb.oracle.cover,
        twin_out_of_step: world.twin_out_of_step.clone(),
        drops: std::mem::take(&mut world.drops),
        points: std::mem::take(&mut shb.ch.points),
        violations: std::mem::take(&mut shb.oracle.viol),
        trace: shb.trace.take(),
        pruned: world.pruned,
        diverged: shb.ch.diverged.clone().or(panic_msg.clone()),
        states: world.states,
        panic: panic_msg,
        outcome_sig: world.outcome_sig,
        spent: shb.ch.spent,
        io_calls: shb.env_steps,
    }
}

pub fn panic_text(p: &Box<dyn std::any::Any + Send>) -> String {
    if let Some(s) = p.downcast_ref::<&str>() {
        s.to_string()
    } else if let Some(s) = p.downcast_ref::<String>() {
        s.clone()
    } else {
        "non-string panic payload".to_string()
    }
}

fn panic_class(text: &str) -> String {
    let t: String = text
        .chars()
        .take(48)
        .map(|c| if c.is_ascii_alphanumeric() { c } else { '_' })
        .collect();
    t
}


const LONG_TOPIC: &str = "long/aaaaaaaaaaaaaaaaaaaaaaaaaaaaaaaaaaaaaaaaaaaaaaaaaaaaaaaaaaaaaaaaaaaaaaaaaaaaaaaaaaaaaaaaaaaaaaaaaaaaaaaaaaaaaaaaaaaaaaaaaaaaaaaaaaaaaaaaaa";

/// Publish shapes (`Cfg::pub_shapes`): topic, properties as the application passes them, and the same
/// properties in the reference codec's terms.
pub fn shape(i: u8) -> (&'static str, Vec<Property<'static>>, Vec<mr::Prop>) {
    use mr::{PVal, Prop};
    match i {
        0 => ("t", vec![], vec![]),
        1 => (
            "rich/topic/with/levels",
            vec![
                Property::UserProperty("k", "v"),
                Property::CorrelationData(b"cd-1"),
                Property::ContentType("x/y"),
                Property::UserProperty("k", "w"),
            ],
            vec![
                Prop { id: 0x26, val: PVal::Pair(b"k".to_vec(), b"v".to_vec()) },
                Prop { id: 0x09, val: PVal::Bin(b"cd-1".to_vec()) },
                Prop { id: 0x03, val: PVal::Str(b"x/y".to_vec()) },
                Prop { id: 0x26, val: PVal::Pair(b"k".to_vec(), b"w".to_vec()) },
            ],
        ),
        _ => (LONG_TOPIC, vec![], vec![]),
    }
}


/// Subscription Options byte of the k-th filter of a multi-filter SUBSCRIBE made by the harness:
/// maximum QoS k % 3; the second filter: Retain Handling 2 and No Local; the third: Retain Handling 1 and
/// Retain As Published.
pub fn sub_option_byte(k: usize) -> u8 {
    let q = (k % 3) as u8;
    match k % 3 {
        1 => q | (1 << 2) | (2 << 4),
        2 => q | (1 << 3) | (1 << 4),
        _ => q,
    }
}
