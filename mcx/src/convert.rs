//! Conversions between minimq's public types and the reference codec's types.
use crate::mqtt_ref::{PVal, Prop};
use minimq::Property;

pub fn prop_to_ref(p: &Property<'_>) -> Prop {
    let (id, val) = match p {
        Property::PayloadFormatIndicator(v) => (0x01, PVal::Byte(*v)),
        Property::MessageExpiryInterval(v) => (0x02, PVal::U32(*v)),
        Property::ContentType(v) => (0x03, PVal::Str(v.as_bytes().to_vec())),
        Property::ResponseTopic(v) => (0x08, PVal::Str(v.as_bytes().to_vec())),
        Property::CorrelationData(v) => (0x09, PVal::Bin(v.to_vec())),
        Property::SubscriptionIdentifier(v) => (0x0B, PVal::Var(*v)),
        Property::SessionExpiryInterval(v) => (0x11, PVal::U32(*v)),
        Property::AssignedClientIdentifier(v) => (0x12, PVal::Str(v.as_bytes().to_vec())),
        Property::ServerKeepAlive(v) => (0x13, PVal::U16(*v)),
        Property::AuthenticationMethod(v) => (0x15, PVal::Str(v.as_bytes().to_vec())),
        Property::AuthenticationData(v) => (0x16, PVal::Bin(v.to_vec())),
        Property::RequestProblemInformation(v) => (0x17, PVal::Byte(*v)),
        Property::WillDelayInterval(v) => (0x18, PVal::U32(*v)),
        Property::RequestResponseInformation(v) => (0x19, PVal::Byte(*v)),
        Property::ResponseInformation(v) => (0x1A, PVal::Str(v.as_bytes().to_vec())),
        Property::ServerReference(v) => (0x1C, PVal::Str(v.as_bytes().to_vec())),
        Property::ReasonString(v) => (0x1F, PVal::Str(v.as_bytes().to_vec())),
        Property::ReceiveMaximum(v) => (0x21, PVal::U16(*v)),
        Property::TopicAliasMaximum(v) => (0x22, PVal::U16(*v)),
        Property::TopicAlias(v) => (0x23, PVal::U16(*v)),
        Property::MaximumQoS(v) => (0x24, PVal::Byte(*v)),
        Property::RetainAvailable(v) => (0x25, PVal::Byte(*v)),
        Property::UserProperty(k, v) => (0x26, PVal::Pair(k.as_bytes().to_vec(), v.as_bytes().to_vec())),
        Property::MaximumPacketSize(v) => (0x27, PVal::U32(*v)),
        Property::WildcardSubscriptionAvailable(v) => (0x28, PVal::Byte(*v)),
        Property::SubscriptionIdentifierAvailable(v) => (0x29, PVal::Byte(*v)),
        Property::SharedSubscriptionAvailable(v) => (0x2A, PVal::Byte(*v)),
    };
    Prop { id, val }
}

/// Build a minimq property borrowing from `p`. Returns `None` for identifiers minimq has no variant for.
pub fn ref_to_prop(p: &Prop) -> Option<Property<'_>> {
    fn s(b: &[u8]) -> &str {
        std::str::from_utf8(b).expect("utf8")
    }
    Some(match (p.id, &p.val) {
        (0x01, PVal::Byte(v)) => Property::PayloadFormatIndicator(*v),
        (0x02, PVal::U32(v)) => Property::MessageExpiryInterval(*v),
        (0x03, PVal::Str(v)) => Property::ContentType(s(v)),
        (0x08, PVal::Str(v)) => Property::ResponseTopic(s(v)),
        (0x09, PVal::Bin(v)) => Property::CorrelationData(v),
        (0x0B, PVal::Var(v)) => Property::SubscriptionIdentifier(*v),
        (0x11, PVal::U32(v)) => Property::SessionExpiryInterval(*v),
        (0x12, PVal::Str(v)) => Property::AssignedClientIdentifier(s(v)),
        (0x13, PVal::U16(v)) => Property::ServerKeepAlive(*v),
        (0x15, PVal::Str(v)) => Property::AuthenticationMethod(s(v)),
        (0x16, PVal::Bin(v)) => Property::AuthenticationData(v),
        (0x17, PVal::Byte(v)) => Property::RequestProblemInformation(*v),
        (0x18, PVal::U32(v)) => Property::WillDelayInterval(*v),
        (0x19, PVal::Byte(v)) => Property::RequestResponseInformation(*v),
        (0x1A, PVal::Str(v)) => Property::ResponseInformation(s(v)),
        (0x1C, PVal::Str(v)) => Property::ServerReference(s(v)),
        (0x1F, PVal::Str(v)) => Property::ReasonString(s(v)),
        (0x21, PVal::U16(v)) => Property::ReceiveMaximum(*v),
        (0x22, PVal::U16(v)) => Property::TopicAliasMaximum(*v),
        (0x23, PVal::U16(v)) => Property::TopicAlias(*v),
        (0x24, PVal::Byte(v)) => Property::MaximumQoS(*v),
        (0x25, PVal::Byte(v)) => Property::RetainAvailable(*v),
        (0x26, PVal::Pair(k, v)) => Property::UserProperty(s(k), s(v)),
        (0x27, PVal::U32(v)) => Property::MaximumPacketSize(*v),
        (0x28, PVal::Byte(v)) => Property::WildcardSubscriptionAvailable(*v),
        (0x29, PVal::Byte(v)) => Property::SubscriptionIdentifierAvailable(*v),
        (0x2A, PVal::Byte(v)) => Property::SharedSubscriptionAvailable(*v),
        _ => return None,
    })
}
