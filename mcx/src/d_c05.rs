//! C05 (also C02 / C03) over long chains of resumed connections: whatever is unacknowledged is retransmitted exactly
//! once on EVERY connection for which the broker reports the session present, however many of them there are, and its
//! handle stays pending. Every case is one scripted history on the real client.
use crate::direct::{guarded, hash_of, sweep, CaseOut};
use crate::direct2::*;
use crate::explore::Caps;
use crate::families::Tier;
use crate::mqtt_ref::{self as mr, CPacket};
use crate::report::FamilyReport;
use minimq::{Publication, QoS, TopicFilter};
use serde::{Deserialize, Serialize};
use serde_json::{json, Value};

#[derive(Clone, Debug, Serialize, Deserialize)]
pub struct Case {
    /// the property the finding is reported under
    pub prop: String,
    /// resumed connections after the one the requests were made on
    pub resumes: u32,
    /// the QoS 2 publish has got its PUBREC on the first connection (so its PUBREL is what is replayed)
    pub pubrec_seen: bool,
    /// every n-th resumed connection ends before the client has replayed anything (0 = never)
    pub silent_every: u32,
}

pub fn eval(c: &Case) -> CaseOut {
    let prop: &'static str = match c.prop.as_str() {
        "C02" => "C02",
        "C03" => "C03",
        _ => "C05",
    };
    guarded(prop, || {
        let mut viol: Vec<(String, String)> = Vec::new();
        let spec = Spec::plain(64, 512);
        let out = with_session(&spec, |bench, s| {
            let (h1, h2, h3, h4, firsts) = {
                let Conn::Ok(mut conn, id) = connect(bench, s, &connack(false, vec![])) else { panic!("machinery: first connect failed") };
                let before = bench.written(id).len();
                let h1 = bench.run(conn.publish(Publication::bytes("t", b"one").qos(QoS::AtLeastOnce)), id).unwrap().unwrap().unwrap();
                let h2 = bench.run(conn.publish(Publication::bytes("t", b"two").qos(QoS::ExactlyOnce)), id).unwrap().unwrap().unwrap();
                let h3 = bench.run(conn.subscribe(&[TopicFilter::new("f/a")], &[]), id).unwrap().unwrap();
                let h4 = bench.run(conn.unsubscribe(&["f/b"], &[]), id).unwrap().unwrap();
                if c.pubrec_seen {
                    bench.push(id, &[0x50, 0x02, 0x00, 0x02]);
                    let _ = bench.run(conn.poll(), id);
                }
                let w = bench.written(id)[before..].to_vec();
                (h1, h2, h3, h4, w)
            };
            // what the first connection carried, packet by packet
            let mut first: Vec<(CPacket, Vec<u8>)> = Vec::new();
            let mut off = 0;
            while off < firsts.len() {
                match mr::decode_client(&firsts[off..]) {
                    Ok((p, n)) => {
                        first.push((p, firsts[off..off + n].to_vec()));
                        off += n;
                    }
                    Err(_) => panic!("machinery: first connection wrote undecodable bytes"),
                }
            }
            let mut first_bad: Option<(u32, String)> = None;
            for n in 1..=c.resumes {
                let Conn::Ok(mut conn, id) = connect(bench, s, &connack(true, vec![])) else { panic!("machinery: resumed connect {} failed", n) };
                let silent = c.silent_every != 0 && n % c.silent_every == 0;
                if !silent {
                    let before = bench.written(id).len();
                    for _ in 0..6 {
                        if bench.run(conn.poll(), id).is_none() {
                            break;
                        }
                    }
                    let w = bench.written(id)[before..].to_vec();
                    let mut got: Vec<Vec<u8>> = Vec::new();
                    let mut off = 0;
                    while off < w.len() {
                        match mr::decode_client(&w[off..]).or_else(|_| {
                            // (SUBSCRIBE / UNSUBSCRIBE replayed with the DUP bit: the recorded C01 finding, not this check's)
                            let mut fixed = w[off..].to_vec();
                            fixed[0] &= !0x08;
                            mr::decode_client(&fixed)
                        }) {
                            Ok((_, k)) => {
                                got.push(w[off..off + k].to_vec());
                                off += k;
                            }
                            Err(_) => break,
                        }
                    }
                    // expected: each unacknowledged packet once, identical to its first transmission except for the DUP bit
                    let mut want: Vec<Vec<u8>> = Vec::new();
                    for (p, raw) in &first {
                        match p {
                            CPacket::Publish(pp) if pp.qos == 2 && c.pubrec_seen => {}
                            CPacket::Ack(_) if !c.pubrec_seen => {}
                            _ => want.push(raw.clone()),
                        }
                    }
                    let strip = |b: &Vec<u8>| {
                        let mut x = b.clone();
                        if matches!(x[0] >> 4, 3 | 8 | 10) {
                            x[0] &= !0x08;
                        }
                        x
                    };
                    let mut g: Vec<Vec<u8>> = got.iter().map(strip).collect();
                    let mut wv: Vec<Vec<u8>> = want.iter().map(strip).collect();
                    g.sort();
                    wv.sort();
                    if g != wv && first_bad.is_none() {
                        first_bad = Some((n, format!("resumed connection {}: the client sent {:?}, owed are {:?}", n, got.iter().map(|b| mr::hex(b)).collect::<Vec<_>>(), want.iter().map(|b| mr::hex(b)).collect::<Vec<_>>())));
                    }
                }
                for (name, h) in [("publish1", &h1), ("publish2", &h2), ("subscribe", &h3), ("unsubscribe", &h4)] {
                    let st = (conn.is_pending(h), conn.is_complete(h), conn.is_invalidated(h));
                    if st != (true, false, false) && first_bad.is_none() {
                        first_bad = Some((n, format!("resumed connection {}: the unacknowledged {} reads (pending, complete, invalidated) = {:?}", n, name, st)));
                    }
                }
                drop(conn);
            }
            first_bad
        });
        let Built::Ran(first_bad) = out else { panic!("machinery: config refused") };
        if let Some((n, d)) = &first_bad {
            let ctx = if *n > 5 { "after-more-than-five-resumed-connections" } else { "within-five-resumed-connections" };
            viol.push((format!("{}:long-chain-of-resumed-connections:{}", prop, ctx), d.clone()));
        }
        CaseOut { class: hash_of(&(first_bad.is_some(), c.pubrec_seen, c.silent_every != 0)), viol }
    })
}

pub fn run(prop: &'static str, tier: Tier, caps: &Caps) -> Vec<FamilyReport> {
    let mut cs = Vec::new();
    let lens: Vec<u32> = if tier == Tier::Quick { vec![1, 2, 40, 300] } else { vec![1, 2, 3, 15, 16, 17, 40, 255, 256, 257, 1000, 66_000] };
    for resumes in lens {
        for pubrec_seen in [false, true] {
            for silent_every in [0u32, 3] {
                cs.push(Case { prop: prop.to_string(), resumes, pubrec_seen, silent_every });
            }
        }
    }
    let name: &'static str = match prop {
        "C02" => "C02-long-chains-of-resumed-connections",
        "C03" => "C03-long-chains-of-resumed-connections",
        _ => "C05-long-chains-of-resumed-connections",
    };
    vec![sweep(
        name,
        prop,
        cs.len() as u64,
        caps,
        json!({"cases": cs.len(), "dimensions": "a QoS 1 publish, a QoS 2 publish (before or after its PUBREC), a SUBSCRIBE and an UNSUBSCRIBE left unacknowledged, followed by 1..300 (thorough: up to 66 000) connections on which the broker reports the session present and never acknowledges; every third of them may end before the client has replayed anything; on every other one each owed packet must appear exactly once, equal to its first transmission but for the DUP bit, and all four handles must read pending"}),
        &|i| eval(&cs[i as usize]),
        &|i| serde_json::to_value(&cs[i as usize]).unwrap(),
    )]
}

pub fn replay(_name: &str, case: &Value) -> Option<CaseOut> {
    Some(eval(&serde_json::from_value(case.clone()).ok()?))
}
