//! Explicit-state breadth-first closure over event histories of the real client.
//!
//! A state is represented by a history that reaches it (live objects cannot be copied, so every
//! expansion re-executes the history on a fresh session and then applies one more event). States are
//! identified by a 128-bit key over the complete real session fingerprint plus the harness' own
//! model state. Levels are expanded in parallel but merged in a fixed order, so state and transition
//! counts are deterministic. The search ends when a level adds no new key (fixpoint: every history
//! of any length over the alphabet leads to an explored state) or at a stated cap.
#![allow(dead_code)]
use crate::report::{FamilyReport, FoundOut};
use serde_json::{json, Value};
use std::collections::{BTreeMap, HashSet};
use std::sync::atomic::{AtomicUsize, Ordering};
use std::sync::Mutex;
use std::time::{Duration, Instant};

pub struct StepOut {
    /// `None`: the last event is not applicable in the parent state (nothing to add)
    pub key: Option<u128>,
    pub viol: Vec<(String, String)>,
    /// class of what was observed on this transition (counted as distinct outcomes)
    pub class: u64,
}

pub trait Model: Sync {
    fn name(&self) -> String;
    fn alphabet(&self) -> Vec<String>;
    /// Execute the history (indices into the alphabet) on a fresh system.
    fn run(&self, hist: &[u8], record: bool) -> (StepOut, Vec<String>);
}

pub struct ClosureCaps {
    pub max_states: usize,
    pub max_depth: usize,
    pub wall: Duration,
    pub threads: usize,
}

pub fn close(model: &dyn Model, prop: &str, caps: &ClosureCaps, bounds: Value) -> FamilyReport {
    let t0 = Instant::now();
    let alpha = model.alphabet();
    let mut seen: HashSet<u128> = HashSet::new();
    let mut frontier: Vec<Vec<u8>> = vec![vec![]];
    let (root, _) = model.run(&[], false);
    let mut found: BTreeMap<String, (Vec<u8>, u64, String)> = BTreeMap::new();
    for (s, d) in root.viol {
        found.entry(s).or_insert((vec![], 0, d)).1 += 1;
    }
    seen.insert(root.key.expect("root state must exist"));
    let mut transitions: u64 = 1;
    let mut classes: HashSet<u64> = HashSet::new();
    classes.insert(root.class);
    let mut depth = 0usize;
    let mut capped: Option<String> = None;
    let mut sample_hist: Vec<Vec<u8>> = vec![vec![]];
    while !frontier.is_empty() {
        if depth >= caps.max_depth {
            capped = Some(format!("depth cap {} reached with {} states on the frontier", caps.max_depth, frontier.len()));
            break;
        }
        if seen.len() >= caps.max_states {
            capped = Some(format!("state cap {} reached", caps.max_states));
            break;
        }
        if t0.elapsed() > caps.wall {
            capped = Some(format!("wall-clock cap {:?} reached", caps.wall));
            break;
        }
        // expand the level in parallel; results are indexed so that merging is order-independent
        let jobs: Vec<(usize, u8)> = (0..frontier.len()).flat_map(|i| (0..alpha.len() as u8).map(move |e| (i, e))).collect();
        let results: Mutex<Vec<Option<StepOut>>> = Mutex::new((0..jobs.len()).map(|_| None).collect());
        let next = AtomicUsize::new(0);
        std::thread::scope(|s| {
            for _ in 0..caps.threads.max(1) {
                s.spawn(|| {
                    let mut local: Vec<(usize, StepOut)> = Vec::new();
                    loop {
                        let j = next.fetch_add(64, Ordering::Relaxed);
                        if j >= jobs.len() {
                            break;
                        }
                        for k in j..(j + 64).min(jobs.len()) {
                            let (i, e) = jobs[k];
                            let mut h = frontier[i].clone();
                            h.push(e);
                            let (out, _) = model.run(&h, false);
                            local.push((k, out));
                        }
                    }
                    let mut r = results.lock().unwrap();
                    for (k, out) in local {
                        r[k] = Some(out);
                    }
                });
            }
        });
        let results = results.into_inner().unwrap();
        let mut next_frontier: Vec<Vec<u8>> = Vec::new();
        for (k, out) in results.into_iter().enumerate() {
            let out = out.expect("job result");
            let (i, e) = jobs[k];
            let Some(key) = out.key else { continue };
            transitions += 1;
            classes.insert(out.class);
            let mut h = frontier[i].clone();
            h.push(e);
            for (s, d) in out.viol {
                let entry = found.entry(s).or_insert((h.clone(), 0, d.clone()));
                entry.1 += 1;
                if h.len() < entry.0.len() {
                    entry.0 = h.clone();
                    entry.2 = d;
                }
            }
            if seen.insert(key) {
                if sample_hist.len() < 3 && h.len() >= 3 {
                    sample_hist.push(h.clone());
                }
                next_frontier.push(h);
            }
        }
        frontier = next_frontier;
        depth += 1;
    }
    let name = model.name();
    let mut out = BTreeMap::new();
    for (sig, (h, count, detail)) in found {
        let (_, trace) = model.run(&h, true);
        out.insert(
            sig.clone(),
            FoundOut {
                prop: prop.to_string(),
                sig: sig.clone(),
                detail: detail.clone(),
                count,
                replay: json!({"property": prop, "signature": sig, "check": prop, "closure": name, "history": h,
                    "events": h.iter().map(|e| alpha[*e as usize].clone()).collect::<Vec<_>>(),
                    "detail": detail, "occurrences_in_search": count, "trace": trace}),
            },
        );
    }
    let samples: Vec<Value> = sample_hist
        .iter()
        .map(|h| {
            let (_, trace) = model.run(h, true);
            json!({"family": name, "history": h.iter().map(|e| alpha[*e as usize].clone()).collect::<Vec<_>>(), "trace": trace})
        })
        .collect();
    let mut b = bounds;
    b["alphabet"] = json!(alpha);
    b["depth_completed"] = json!(depth);
    b["fixpoint_reached"] = json!(capped.is_none());
    FamilyReport {
        name,
        bounds: b,
        executions: transitions,
        states: seen.len() as u64,
        transitions,
        merged: transitions.saturating_sub(seen.len() as u64),
        outcomes: classes.len() as u64,
        exhaustive: capped.is_none(),
        capped,
        samples,
        found: out,
        reached: Vec::new(),
        not_reached: Vec::new(),
        wall_s: t0.elapsed().as_secs_f64(),
    }
}
