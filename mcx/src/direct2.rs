//! Direct enumerations for C07 (setter validation), C09, C14, C19 and C20.
//! Common scaffolding lives here; the per-property sweeps are in `d_c09.rs`, `d_c14.rs`,
//! `d_c19.rs`, `d_c20.rs`.
#![allow(dead_code)]
use crate::bench::Bench;
use crate::cfg::BrokerCfg;
use crate::direct::CaseOut;
use crate::explore::Caps;
use crate::families::Tier;
use crate::mqtt_ref::{self as mr, CPacket, Prop, SPacket};
use crate::report::FamilyReport;
use crate::world::{Res, VirtualIo};
use minimq::{Buffers, ConfigBuilder, Connection, Property, QoS, Session, Will};
use serde_json::Value;

/// Static description of a session to build.
#[derive(Clone, Debug)]
pub struct Spec {
    pub rx: usize,
    pub tx: usize,
    pub id: String,
    pub keepalive: u16,
    pub expiry: u32,
    pub downgrade: bool,
    pub auth: Option<(String, Vec<u8>)>,
    pub will: Option<WillSpec>,
    /// every setter of the builder that may be called again is first called with a decoy value (the last call counts)
    pub decoys: bool,
}

#[derive(Clone, Debug)]
pub struct WillSpec {
    pub topic: String,
    pub data: Vec<u8>,
    pub qos: u8,
    pub retain: bool,
    pub props: Vec<Prop>,
}

impl Spec {
    pub fn plain(rx: usize, tx: usize) -> Spec {
        Spec {
            rx,
            tx,
            id: "mcx".into(),
            keepalive: 0,
            expiry: 100,
            downgrade: false,
            auth: None,
            will: None,
            decoys: false,
        }
    }
}

pub fn qos_of(q: u8) -> QoS {
    match q {
        0 => QoS::AtMostOnce,
        1 => QoS::AtLeastOnce,
        _ => QoS::ExactlyOnce,
    }
}

pub enum Built<R> {
    /// the configuration itself was refused
    Config(String),
    Ran(R),
}

/// Build a session from `spec` and hand it to `f` together with a manual bench.
pub fn with_session<R>(spec: &Spec, f: impl for<'b> FnOnce(&Bench, &mut Session<'b>) -> R) -> Built<R> {
    let bench = Bench::new(true, BrokerCfg::default(), spec.rx);
    let mut rx = vec![0u8; spec.rx];
    let mut tx = vec![0u8; spec.tx];
    let mut both = vec![0u8; spec.rx + spec.tx];
    // the two public ways to hand over the buffers are used in turn (odd total: one backing buffer split at `rx`)
    let builder = if (spec.rx + spec.tx) % 2 == 1 {
        match ConfigBuilder::from_buffer(&mut both, spec.rx) {
            Ok(b) => b,
            Err(e) => return Built::Config(format!("{:?}", e)),
        }
    } else {
        ConfigBuilder::new(Buffers::new(&mut rx, &mut tx))
    };
    let builder = if spec.decoys {
        match builder.client_id("decoy-identifier") {
            Ok(b) => b.keepalive_interval(7).session_expiry_interval(9),
            Err(e) => return Built::Config(format!("{:?}", e)),
        }
    } else {
        builder
    };
    let mut b = match builder.client_id(&spec.id) {
        Ok(b) => b,
        Err(e) => return Built::Config(format!("{:?}", e)),
    };
    b = b.keepalive_interval(spec.keepalive).session_expiry_interval(spec.expiry);
    if spec.downgrade {
        b = b.autodowngrade_qos();
    }
    let auth = spec.auth.clone();
    if let Some((u, p)) = &auth {
        b = match b.auth(u, p) {
            Ok(b) => b,
            Err(e) => return Built::Config(format!("{:?}", e)),
        };
    }
    let wspec = spec.will.clone();
    let wprops_ref: Vec<Prop> = wspec.as_ref().map(|w| w.props.clone()).unwrap_or_default();
    let wprops: Vec<Property<'_>> = wprops_ref.iter().filter_map(crate::convert::ref_to_prop).collect();
    if let Some(w) = &wspec {
        let will = match Will::new(&w.topic, &w.data, &wprops) {
            Ok(will) => will,
            Err(e) => return Built::Config(format!("{:?}", e)),
        };
        let mut will = will.qos(qos_of(w.qos));
        if w.retain {
            will = will.retained();
        }
        b = match b.will(will) {
            Ok(b) => b,
            Err(e) => return Built::Config(format!("{:?}", e)),
        };
    }
    let mut s = Session::new(b);
    Built::Ran(f(&bench, &mut s))
}

pub fn connack(session_present: bool, props: Vec<Prop>) -> Vec<u8> {
    SPacket::ConnAck {
        session_present,
        reason: 0,
        props,
    }
    .encode()
}

pub enum Conn<'s, 'b> {
    Ok(Connection<'s, 'b, VirtualIo>, usize),
    Err(Res, usize),
    Blocked(usize),
}

/// `connect()` on a fresh transport whose inbound side already holds `connack`.
pub fn connect<'s, 'b>(bench: &Bench, s: &'s mut Session<'b>, connack: &[u8]) -> Conn<'s, 'b> {
    let (io, id) = bench.io();
    bench.push(id, connack);
    match bench.run(s.connect(io), id) {
        Some(Ok(c)) => Conn::Ok(c, id),
        Some(Err(e)) => Conn::Err(Res::from_err(&e), id),
        None => Conn::Blocked(id),
    }
}

/// Everything written on `conn`, strictly decoded. `Err` carries the reason.
pub fn wire(bench: &Bench, conn: usize) -> Result<Vec<(CPacket, Vec<u8>)>, String> {
    bench.packets(conn)
}

pub fn props_of(v: &[Prop]) -> Vec<Property<'_>> {
    v.iter().filter_map(crate::convert::ref_to_prop).collect()
}

pub fn direct(prop: &str, tier: Tier, caps: &Caps) -> Vec<FamilyReport> {
    match prop {
        "C01" => crate::d_c09::run_c01(tier, caps),
        "C02" => crate::d_c05::run("C02", tier, caps),
        "C03" => crate::d_c05::run("C03", tier, caps),
        "C05" => crate::d_c05::run("C05", tier, caps),
        "C07" => crate::d_c07::run(tier, caps),
        "C09" => crate::d_c09::run(tier, caps),
        "C10" => crate::d_c10::run(tier, caps),
        "C14" => crate::d_c14::run(tier, caps),
        "C17" => crate::d_c17::run(tier, caps),
        "C18" => crate::d_c18::run(tier, caps),
        "C19" => crate::d_c19::run(tier, caps),
        "C20" => crate::d_c20::run(tier, caps),
        _ => vec![],
    }
}

pub fn replay_case(name: &str, case: &Value) -> Option<CaseOut> {
    if name.ends_with("-long-chains-of-resumed-connections") {
        crate::d_c05::replay(name, case)
    } else if name.starts_with("C07") {
        crate::d_c07::replay(name, case)
    } else if name.starts_with("C09") || name.starts_with("C01-remaining-lengths") {
        crate::d_c09::replay(name, case)
    } else if name.starts_with("C14") {
        crate::d_c14::replay(name, case)
    } else if name.starts_with("C18") {
        crate::d_c18::replay(name, case)
    } else if name.starts_with("C19") {
        crate::d_c19::replay(name, case)
    } else if name.starts_with("C20") {
        crate::d_c20::replay(name, case)
    } else {
        None
    }
}
