//! Direct enumerations for C07 (setter validation), C09, C14, C19 and C20.
#![allow(dead_code)]
use crate::direct::CaseOut;
use crate::explore::Caps;
use crate::families::Tier;
use crate::report::FamilyReport;
use serde_json::Value;

pub fn direct(_prop: &str, _tier: Tier, _caps: &Caps) -> Vec<FamilyReport> {
    vec![]
}

pub fn replay_case(_name: &str, _case: &Value) -> Option<CaseOut> {
    None
}
