//! Per-property families: which alphabets, bounds and environment menus are explored.
use crate::cfg::*;

#[derive(Copy, Clone, PartialEq, Eq, Debug)]
pub enum Tier {
    Quick,
    Thorough,
}

pub fn families(prop: &str, tier: Tier) -> Vec<Cfg> {
    let q = tier == Tier::Quick;
    match prop {
        "C01" => {
            let mut a = Cfg::base("C01-partial-writes-and-cancellation");
            a.props = vec!["C01"];
            a.ops = vec![OpK::Pub1, OpK::Pub2, OpK::Pub0, OpK::Sub, OpK::Unsub, OpK::Poll, OpK::Disconnect, OpK::DropConn];
            a.io = IoMenu::partial();
            a.cancel = true;
            a.max_ops = if q { 5 } else { 6 };
            a.max_conns = 2;
            a.dev = if q { 2 } else { 3 };
            a.max_reqs = 3;
            let mut b = Cfg::base("C01-faults-and-inbound");
            b.props = vec!["C01"];
            b.ops = vec![OpK::Pub1, OpK::Pub2, OpK::Sub, OpK::Poll, OpK::Drive, OpK::Disconnect, OpK::DropConn];
            b.io = IoMenu::full();
            b.cancel = true;
            b.broker.script = vec![inpub(1, 11), inpub(2, 12)];
            b.broker.may_lose_session = true;
            b.max_ops = if q { 5 } else { 6 };
            b.max_conns = if q { 2 } else { 3 };
            b.dev = if q { 2 } else { 3 };
            b.max_reqs = 3;
            // keep-alive traffic falling due while another packet is half written
            let mut c = Cfg::base("C01-pingreq-due-during-partial-writes");
            c.props = vec!["C01"];
            c.keepalive = 10;
            c.ops = vec![OpK::Pub1, OpK::Pub0, OpK::Poll, OpK::Drive, OpK::Sleep];
            c.sleeps = vec![5_000];
            c.io = IoMenu::partial();
            c.io.all_partials_upto = 6;
            c.cancel = true;
            c.max_ops = if q { 5 } else { 6 };
            c.max_conns = 1;
            c.max_reqs = 2;
            c.dev = 2;
            let mut v = vec![a, b, c];
            if !q {
                // packets with a two-byte remaining length
                let mut d = Cfg::base("C01-two-byte-remaining-length");
                d.props = vec!["C01"];
                d.tx = 512;
                d.payload_sizes = vec![2, 130];
                d.pub_retain = vec![false, true];
                d.ops = vec![OpK::Pub1, OpK::Pub0, OpK::Pub2, OpK::Poll, OpK::DropConn];
                d.io = IoMenu::partial();
                d.cancel = true;
                d.max_ops = 5;
                d.max_conns = 2;
                d.max_reqs = 2;
                d.dev = 2;
                v.push(d);
            }
            v
        }
        "C02" => {
            // connection death at every I/O call, cancellation, ack orders, resumed reconnects
            let mut a = Cfg::base("C02-crash-points-and-resume");
            a.props = vec!["C02"];
            a.ops = vec![OpK::Pub1, OpK::Pub2, OpK::Sub, OpK::Poll, OpK::DropConn];
            a.io = IoMenu::faults_only();
            a.io.write_pending = true;
            a.io.flush_pending = true;
            a.cancel = true;
            a.max_ops = if q { 7 } else { 9 };
            a.max_conns = if q { 3 } else { 4 };
            a.max_reqs = if q { 3 } else { 4 };
            a.dev = if q { 1 } else { 2 };
            let mut b = Cfg::base("C02-partial-writes-then-death");
            b.props = vec!["C02"];
            b.ops = vec![OpK::Pub1, OpK::Poll, OpK::DropConn, OpK::Forget];
            b.io = IoMenu::full();
            b.cancel = true;
            b.max_ops = if q { 6 } else { 8 };
            b.max_conns = 3;
            b.max_reqs = if q { 3 } else { 4 };
            b.dev = 2;
            let mut c = Cfg::base("C02-buffering-transport");
            c.props = vec!["C02"];
            c.ops = vec![OpK::Pub1, OpK::Poll, OpK::DropConn];
            c.io = IoMenu::faults_only();
            c.io.write_pending = true;
            c.io.flush_pending = true;
            c.io.deliver_on_flush = true;
            c.cancel = true;
            c.max_ops = if q { 6 } else { 8 };
            c.max_conns = 3;
            c.max_reqs = 3;
            c.dev = 2;
            // the broker's Maximum Packet Size differs from connection to connection
            let mut d = Cfg::base("C02-maximum-packet-size-changes-between-connections");
            d.props = vec!["C02"];
            d.ops = vec![OpK::Pub1, OpK::Poll, OpK::DropConn];
            d.io = IoMenu::benign();
            d.broker.max_packet = vec![None, Some(9), Some(64)];
            d.max_ops = if q { 7 } else { 9 };
            d.max_conns = if q { 3 } else { 4 };
            d.max_reqs = 2;
            d.dev = 0;
            vec![a, b, c, d]
        }
        "C03" => {
            let mut a = Cfg::base("C03-qos2-orders-and-crashes");
            a.props = vec!["C03"];
            a.ops = vec![OpK::Pub2, OpK::Poll, OpK::DropConn];
            a.io = IoMenu::faults_only();
            a.io.write_pending = true;
            a.cancel = true;
            a.broker.ack_fail = true;
            a.max_ops = if q { 9 } else { 11 };
            a.max_conns = if q { 2 } else { 3 };
            a.max_reqs = if q { 3 } else { 4 };
            a.dev = if q { 1 } else { 2 };
            let mut b = Cfg::base("C03-qos2-mixed-with-qos1");
            b.props = vec!["C03"];
            b.ops = vec![OpK::Pub2, OpK::Pub1, OpK::Poll, OpK::DropConn];
            b.io = IoMenu::partial();
            b.cancel = true;
            b.max_ops = if q { 6 } else { 8 };
            b.max_conns = 2;
            b.max_reqs = 3;
            b.dev = if q { 1 } else { 2 };
            // exchanges that share the in-flight list with unacknowledged SUBSCRIBE / UNSUBSCRIBE / QoS 1 entries
            let mut c = Cfg::base("C03-qos2-among-other-unacknowledged-requests");
            c.props = vec!["C03"];
            c.ops = vec![OpK::Sub, OpK::Pub2, OpK::Unsub, OpK::Pub1, OpK::Poll, OpK::DropConn];
            c.io = IoMenu::benign();
            c.broker.ack_fail = true;
            c.max_ops = if q { 8 } else { 10 };
            c.max_conns = 2;
            c.max_reqs = if q { 3 } else { 4 };
            c.dev = 0;
            vec![a, b, c]
        }
        "C04" => {
            let mut a = Cfg::base("C04-inbound-qos012-interleaved");
            a.props = vec!["C04"];
            a.ops = vec![OpK::Poll, OpK::Pub1, OpK::Drive, OpK::DropConn];
            a.io = IoMenu::partial();
            a.io.read_err = true;
            a.cancel = true;
            a.broker.script = vec![inpub(2, 1), inpub(1, 65535), inpub(0, 0), inpub_rich(1, 258), inpub(2, 258)];
            a.broker.dup_retransmit = true;
            a.broker.stale_acks = true;
            a.broker.may_lose_session = true;
            a.max_ops = if q { 7 } else { 9 };
            a.max_conns = if q { 2 } else { 3 };
            a.max_reqs = 1;
            a.dev = if q { 1 } else { 2 };
            // transmit arena full: acks must still go out
            let mut b = Cfg::base("C04-arena-full");
            b.props = vec!["C04"];
            b.tx = 40;
            // 32 bytes (8 left in the arena) and 35 bytes (5 left: less than any acknowledgement needs)
            b.payload_sizes = vec![24, 27];
            b.ops = vec![OpK::Pub1, OpK::Poll, OpK::DropConn];
            b.io = IoMenu::benign();
            b.io.write_pending = true;
            b.cancel = true;
            b.broker.script = vec![inpub(1, 7), inpub(2, 9)];
            b.broker.reorder_window = 4;
            b.max_ops = if q { 7 } else { 9 };
            b.max_conns = 2;
            b.max_reqs = 2;
            b.dev = 1;
            vec![a, b]
        }
        "C05" => {
            let mut a = Cfg::base("C05-handshake-variants");
            a.props = vec!["C05"];
            a.ops = vec![OpK::Pub1, OpK::Pub2, OpK::Sub, OpK::Unsub, OpK::Poll, OpK::DropConn];
            a.io = IoMenu::faults_only();
            a.io.write_pending = true;
            a.io.read_pending = true;
            a.cancel = true;
            a.broker.bad_handshake = true;
            a.broker.may_lose_session = true;
            a.broker.assigned_id = vec![None, Some("assigned-by-broker")];
            a.max_ops = if q { 6 } else { 8 };
            a.max_conns = if q { 3 } else { 4 };
            a.max_reqs = if q { 2 } else { 3 };
            a.dev = if q { 1 } else { 2 };
            if !q {
                // the full menu of handshake failures with two deviations is explored on three connections;
                // four connections with one deviation
                let mut b = a.clone();
                b.family = "C05-handshake-variants-four-connections";
                b.dev = 1;
                a.max_conns = 3;
                return vec![a, b];
            }
            vec![a]
        }
        "C06" => {
            let mut v = Vec::new();
            for (i, rm) in [Some(1u16), Some(2), Some(3)].into_iter().enumerate() {
                if q && i == 2 {
                    continue;
                }
                let mut a = Cfg::base(match i {
                    0 => "C06-receive-maximum-1",
                    1 => "C06-receive-maximum-2",
                    _ => "C06-receive-maximum-3",
                });
                a.props = vec!["C06"];
                a.ops = vec![OpK::Pub1, OpK::Pub2, OpK::Poll, OpK::DropConn];
                a.io = IoMenu::benign();
                a.io.write_pending = true;
                a.cancel = true;
                a.broker.receive_max = vec![rm];
                a.broker.ack_fail = true;
                if !q {
                    a.pub_retain = vec![false, true];
                }
                a.max_ops = if q { 7 } else { 9 };
                a.max_conns = 2;
                a.max_reqs = if q { 3 } else { 4 };
                a.dev = 1;
                v.push(a);
            }
            // the broker changes its Receive Maximum between two connections of one session
            let mut c = Cfg::base("C06-receive-maximum-changes-on-resume");
            c.props = vec!["C06"];
            c.ops = vec![OpK::Pub1, OpK::Pub2, OpK::Poll, OpK::DropConn];
            c.io = IoMenu::benign();
            c.broker.receive_max = vec![Some(2), Some(1), Some(3)];
            c.pub_retain = vec![false, true];
            c.max_ops = if q { 7 } else { 9 };
            c.max_conns = 2;
            c.max_reqs = if q { 3 } else { 4 };
            c.dev = 0;
            v.push(c);
            // local limit: Receive Maximum above / at the local window of 8
            let mut b = Cfg::base("C06-receive-maximum-9-and-65535");
            b.props = vec!["C06"];
            b.ops = vec![OpK::Pub2, OpK::Pub1, OpK::Poll];
            b.io = IoMenu::benign();
            b.broker.receive_max = vec![Some(9), Some(65535), None];
            b.broker.reorder_window = 1;
            b.broker.fifo = true;
            b.max_ops = if q { 14 } else { 17 };
            b.max_conns = 1;
            b.max_reqs = if q { 10 } else { 11 };
            b.dev = 0;
            v.push(b);
            v
        }
        "C07" => {
            let mut v = Vec::new();
            for (i, start) in [None, Some(65534u16), Some(65535)].into_iter().enumerate() {
                let mut a = Cfg::base(match i {
                    0 => "C07-counter-comes-round-to-live-id",
                    1 => "C07-wrap-from-65534",
                    _ => "C07-wrap-from-65535",
                });
                a.props = vec!["C07"];
                a.ops = vec![OpK::Pub1, OpK::Pub2, OpK::Sub, OpK::Unsub, OpK::Poll, OpK::Age];
                a.start_pid = start;
                a.io = IoMenu::benign();
                a.io.write_pending = true;
                a.cancel = true;
                a.broker.receive_max = vec![Some(2)];
                a.max_ops = if q { 6 } else { 8 };
                a.max_conns = 1;
                a.max_reqs = if q { 4 } else { 5 };
                a.dev = if q { 0 } else { 1 };
                a.watchdog_calls = 600;
                v.push(a);
            }
            v
        }
        "C11" => {
            let mut a = Cfg::base("C11-every-fault-then-every-call");
            a.props = vec!["C11"];
            a.ops = vec![
                OpK::Pub0,
                OpK::Pub1,
                OpK::Pub2,
                OpK::Sub,
                OpK::Unsub,
                OpK::Poll,
                OpK::Drive,
                OpK::Recv,
                OpK::Disconnect,
            ];
            a.io = IoMenu::faults_only();
            a.broker.disconnect = true;
            a.broker.garbage = true;
            a.broker.script = vec![inpub(1, 3)];
            a.max_ops = if q { 5 } else { 7 };
            a.max_conns = 1;
            a.max_reqs = 4;
            a.dev = 1;
            a.drain = false;
            // keep-alive timeout as the fault
            let mut b = Cfg::base("C11-keepalive-timeout-then-every-call");
            b.props = vec!["C11"];
            b.keepalive = 10;
            b.ops = a.ops.clone();
            b.io = IoMenu::benign();
            b.broker.mute_pingresp = true;
            b.max_ops = if q { 6 } else { 7 };
            b.max_conns = 1;
            b.max_reqs = 2;
            b.dev = 0;
            b.drain = false;
            // a fault hitting work that an earlier, cancelled operation left half done (resumed write or flush)
            let mut c = Cfg::base("C11-fault-on-resumed-write-or-flush");
            c.props = vec!["C11"];
            c.ops = vec![OpK::Pub1, OpK::Sub, OpK::Poll, OpK::Drive, OpK::Disconnect];
            c.io = IoMenu::faults_only();
            c.io.write_partial = true;
            c.io.all_partials_upto = 4;
            c.io.write_pending = true;
            c.io.flush_pending = true;
            c.cancel = true;
            c.broker.script = vec![inpub(1, 3)];
            c.max_ops = if q { 5 } else { 6 };
            c.max_conns = 1;
            c.max_reqs = 2;
            c.dev = if q { 2 } else { 3 };
            c.drain = false;
            vec![a, b, c]
        }
        "C12" => {
            let mut a = Cfg::base("C12-after-any-failure-or-cancellation");
            a.props = vec!["C12"];
            a.ops = vec![OpK::Pub1, OpK::Pub2, OpK::Sub, OpK::Poll, OpK::Disconnect, OpK::DropConn, OpK::Forget, OpK::IntoInner];
            a.io = IoMenu::full();
            a.cancel = true;
            a.broker.bad_handshake = true;
            a.broker.garbage = true;
            a.broker.disconnect = true;
            a.broker.script = vec![inpub(2, 5)];
            a.max_ops = if q { 5 } else { 6 };
            a.max_conns = if q { 2 } else { 3 };
            a.max_reqs = 2;
            a.dev = if q { 2 } else { 3 };
            // arena-filling retained payloads, tiny to roomy buffers
            let mut v = vec![a];
            // the inbound QoS 2 table exactly full (and one short of full) when the connection is lost
            let mut t = Cfg::base("C12-inbound-qos2-table-full-at-connection-loss");
            t.props = vec!["C12"];
            t.ops = vec![OpK::Recv, OpK::DropConn];
            t.io = IoMenu::benign();
            t.broker.script = (1..=8).map(|i| inpub(2, i)).collect();
            t.broker.script_burst = true;
            t.broker.fifo = true;
            t.broker.reorder_window = 1;
            t.max_ops = if q { 11 } else { 12 };
            t.max_conns = 2;
            t.max_reqs = 0;
            t.dev = 0;
            v.push(t);
            for (tx, pay) in [(96usize, 80usize), (64, 40), (48, 30)] {
                if q && tx != 96 {
                    continue;
                }
                let mut b = Cfg::base(match tx {
                    96 => "C12-arena-nearly-full-96",
                    64 => "C12-arena-nearly-full-64",
                    _ => "C12-arena-nearly-full-48",
                });
                b.props = vec!["C12"];
                b.tx = tx;
                b.payload_sizes = vec![pay, 2];
                b.ops = vec![OpK::Pub1, OpK::Poll, OpK::DropConn];
                b.io = IoMenu::faults_only();
                b.max_ops = 5;
                b.max_conns = 2;
                b.max_reqs = 2;
                b.dev = 1;
                v.push(b);
            }
            v
        }
        "C13" => {
            let mut a = Cfg::base("C13-cancel-at-every-await-point");
            a.props = vec!["C13"];
            a.twin = Some(Twin::Cancel);
            a.drain_script = true;
            a.prune = false;
            a.cancel = true;
            a.cancel_connect = false;
            a.ops = vec![OpK::Pub1, OpK::Pub2, OpK::Sub, OpK::Unsub, OpK::Poll, OpK::Recv, OpK::Drive];
            a.io = IoMenu::partial();
            a.io.all_partials_upto = if q { 6 } else { 16 };
            a.broker.script = vec![inpub(1, 11), inpub(2, 12)];
            a.broker.reorder_window = 1;
            a.broker.fifo = true;
            a.max_ops = if q { 4 } else { 5 };
            a.max_conns = 1;
            a.max_reqs = 3;
            a.dev = 2;
            // two successive cancellations, fewer operation kinds
            let mut b = Cfg::base("C13-successive-cancellations");
            b.props = vec!["C13"];
            b.twin = Some(Twin::Cancel);
            b.drain_script = true;
            b.prune = false;
            b.cancel = true;
            b.cancel_connect = false;
            b.ops = vec![OpK::Pub1, OpK::Pub2, OpK::Sub, OpK::Poll];
            b.io = IoMenu::benign();
            b.io.write_pending = true;
            b.io.flush_pending = true;
            b.io.read_pending = true;
            b.broker.script = vec![inpub(2, 12)];
            b.broker.reorder_window = 1;
            b.broker.fifo = true;
            b.max_ops = if q { 5 } else { 6 };
            b.max_conns = 1;
            b.max_reqs = 3;
            b.dev = if q { 2 } else { 3 };
            // disconnect() is documented as cancel-safe as well: cancel it (and only it) at every await point
            let mut c = Cfg::base("C13-cancelled-disconnect");
            c.props = vec!["C13"];
            c.twin = Some(Twin::Cancel);
            c.drain_script = true;
            c.prune = false;
            c.cancel = true;
            c.cancel_connect = false;
            c.cancel_only = Some(vec![OpK::Disconnect]);
            c.ops = vec![OpK::Pub1, OpK::Poll, OpK::Disconnect];
            c.io = IoMenu::partial();
            c.broker.reorder_window = 1;
            c.broker.fifo = true;
            c.max_ops = 4;
            c.max_conns = 1;
            c.max_reqs = 2;
            c.dev = 2;
            // buffering transport (bytes reach the broker at flush): a packet whose flush was interrupted must
            // still get out
            let mut d = Cfg::base("C13-cancel-on-buffering-transport");
            d.props = vec!["C13"];
            d.twin = Some(Twin::Cancel);
            d.drain_script = true;
            d.prune = false;
            d.cancel = true;
            d.cancel_connect = false;
            d.ops = vec![OpK::Pub1, OpK::Pub2, OpK::Sub, OpK::Poll, OpK::Drive];
            d.io = IoMenu::benign();
            d.io.write_pending = true;
            d.io.flush_pending = true;
            d.io.read_pending = true;
            d.io.deliver_on_flush = true;
            d.broker.script = vec![inpub(1, 11), inpub(2, 12)];
            d.broker.reorder_window = 1;
            d.broker.fifo = true;
            d.max_ops = if q { 4 } else { 5 };
            d.max_conns = 1;
            d.max_reqs = 3;
            d.dev = 2;
            vec![a, b, c, d]
        }
        "C15" => {
            let mut a = Cfg::base("C15-partial-and-pending-transport-answers");
            a.props = vec!["C15"];
            a.twin = Some(Twin::Fragment);
            a.drain_script = true;
            a.prune = false;
            a.ops = vec![OpK::Pub0, OpK::Pub1, OpK::Pub2, OpK::Sub, OpK::Poll, OpK::DropConn];
            a.io = IoMenu::partial();
            a.broker.script = vec![inpub(1, 11), inpub(2, 12)];
            a.broker.reorder_window = 1;
            a.broker.fifo = true;
            a.max_ops = if q { 4 } else { 5 };
            a.max_conns = 2;
            a.max_reqs = 3;
            a.dev = if q { 2 } else { 3 };
            // every chunking of a short inbound stream: each read may return any shorter prefix
            let mut b = Cfg::base("C15-all-chunkings-of-inbound-stream");
            b.props = vec!["C15"];
            b.twin = Some(Twin::Fragment);
            b.drain_script = true;
            b.prune = false;
            b.ops = vec![OpK::Poll];
            b.io = IoMenu::benign();
            b.io.read_partial = true;
            b.io.all_partials_upto = 32;
            b.broker.script = if q { vec![inpub(1, 11), inpub(0, 0)] } else { vec![inpub(1, 11), inpub(2, 12), inpub(0, 0)] };
            // the same stream sitting in the transport all at once, with a zero-length packet in front
            let mut c = b.clone();
            c.family = "C15-all-chunkings-of-back-to-back-packets";
            c.broker.script = if q { vec![inpub(9, 0), inpub(1, 11)] } else { vec![inpub(0, 0), inpub(9, 0), inpub(1, 11), inpub(9, 0)] };
            c.broker.script_burst = true;
            b.broker.reorder_window = 1;
            b.broker.fifo = true;
            b.max_ops = if q { 3 } else { 4 };
            b.max_conns = 1;
            b.max_reqs = 0;
            b.dev = 40;
            c.max_ops = b.max_ops;
            c.max_reqs = 0;
            c.dev = 40;
            // keep-alive traffic under partial writes
            let mut d = Cfg::base("C15-keepalive-traffic-under-partial-writes");
            d.props = vec!["C15"];
            d.twin = Some(Twin::Fragment);
            d.drain_script = true;
            d.prune = false;
            d.keepalive = 10;
            d.ops = vec![OpK::Pub1, OpK::Poll, OpK::Drive, OpK::Sleep];
            d.sleeps = vec![5_000];
            d.io = IoMenu::partial();
            d.broker.reorder_window = 1;
            d.broker.fifo = true;
            d.max_ops = if q { 4 } else { 5 };
            d.max_conns = 1;
            d.max_reqs = 2;
            d.dev = 2;
            vec![a, b, c, d]
        }
        "C16" => {
            let mut a = Cfg::base("C16-progress-after-partials-cancels-faults");
            a.props = vec!["C16"];
            a.ops = vec![OpK::Pub1, OpK::Pub2, OpK::Sub, OpK::Unsub, OpK::Poll, OpK::Drive, OpK::DropConn];
            a.io = IoMenu::full();
            a.cancel = true;
            a.broker.script = vec![inpub(1, 21), inpub(2, 22)];
            a.broker.may_lose_session = true;
            a.max_ops = if q { 6 } else { 7 };
            a.max_conns = if q { 2 } else { 3 };
            a.max_reqs = 3;
            a.dev = if q { 1 } else { 2 };
            let mut b = Cfg::base("C16-handshake-failures");
            b.props = vec!["C16"];
            b.ops = vec![OpK::Pub1, OpK::Pub2, OpK::Sub, OpK::Poll, OpK::DropConn];
            b.io = IoMenu::faults_only();
            b.cancel = true;
            b.io.read_pending = true;
            b.broker.bad_handshake = true;
            b.broker.ack_fail = true;
            b.max_ops = if q { 6 } else { 7 };
            b.max_conns = 3;
            b.max_reqs = 3;
            b.dev = if q { 1 } else { 2 };
            // robustness: write answering Ok(0)
            let mut c = Cfg::base("C16-write-zero");
            c.props = vec!["C16"];
            c.ops = vec![OpK::Pub1, OpK::Pub0, OpK::Poll];
            c.io = IoMenu::benign();
            c.io.write_zero = true;
            c.max_ops = 5;
            c.max_conns = 2;
            c.max_reqs = 2;
            c.dev = 2;
            // buffering transport: every interrupted flush must be resumed
            let mut d = Cfg::base("C16-buffering-transport");
            d.props = vec!["C16"];
            d.ops = vec![OpK::Pub1, OpK::Pub2, OpK::Sub, OpK::Poll, OpK::Drive, OpK::DropConn];
            d.io = IoMenu::benign();
            d.io.write_pending = true;
            d.io.flush_pending = true;
            d.io.read_pending = true;
            d.io.deliver_on_flush = true;
            d.cancel = true;
            d.broker.script = vec![inpub(1, 21), inpub(2, 22)];
            d.max_ops = if q { 5 } else { 6 };
            d.max_conns = 2;
            d.max_reqs = 3;
            d.dev = if q { 2 } else { 3 };
            // partial writes with no inbound traffic that could tear the stream and force a reconnect:
            // whatever was half written must be finished by the session itself
            let mut e = Cfg::base("C16-partial-writes-quiet-broker");
            e.props = vec!["C16"];
            e.ops = vec![OpK::Pub1, OpK::Pub2, OpK::Sub, OpK::Unsub, OpK::Poll, OpK::Drive];
            e.io = IoMenu::partial();
            e.cancel = true;
            e.max_ops = if q { 5 } else { 6 };
            e.max_conns = 1;
            e.max_reqs = 3;
            e.dev = 2;
            vec![a, b, c, d, e]
        }
        "C18" => {
            let mut a = Cfg::base("C18-status-after-every-step");
            a.props = vec!["C18"];
            a.ops = vec![OpK::Pub1, OpK::Pub2, OpK::Sub, OpK::Unsub, OpK::Poll, OpK::DropConn];
            a.io = IoMenu::faults_only();
            a.io.write_pending = true;
            a.cancel = true;
            a.broker.ack_fail = true;
            a.broker.may_lose_session = true;
            a.max_ops = if q { 7 } else { 9 };
            a.max_conns = if q { 2 } else { 3 };
            a.max_reqs = 3;
            a.dev = if q { 1 } else { 2 };
            // rejected / garbled / protocol-illegal handshakes between the connections
            let mut b = Cfg::base("C18-status-across-failed-handshakes");
            b.props = vec!["C18"];
            b.ops = vec![OpK::Pub1, OpK::Pub2, OpK::Sub, OpK::Poll, OpK::DropConn];
            b.io = IoMenu::benign();
            b.broker.bad_handshake = true;
            b.broker.may_lose_session = true;
            b.max_ops = if q { 7 } else { 8 };
            b.max_conns = if q { 3 } else { 4 };
            b.max_reqs = 2;
            b.dev = if q { 1 } else { 2 };
            // identifiers straddling the 16-bit wrap
            let mut c = Cfg::base("C18-status-across-identifier-wrap");
            c.props = vec!["C18"];
            c.start_pid = Some(65534);
            c.ops = vec![OpK::Pub1, OpK::Pub2, OpK::Sub, OpK::Poll];
            c.io = IoMenu::benign();
            c.max_ops = if q { 8 } else { 9 };
            c.max_conns = 1;
            c.max_reqs = 4;
            c.dev = 0;
            vec![a, b, c]
        }
        _ => vec![],
    }
}

/// An inbound publish with the RETAIN flag, a longer topic and several properties.
pub fn inpub_rich(qos: u8, pid: u16) -> InPub {
    use crate::mqtt_ref::{PVal, Prop};
    InPub {
        qos,
        pid,
        retain: true,
        topic: "in/\u{e9}",
        payload: vec![0xC0 | qos, pid as u8, 0, 255],
        props: vec![
            Prop { id: 0x26, val: PVal::Pair(b"k".to_vec(), b"v".to_vec()) },
            Prop { id: 0x0B, val: PVal::Var(300) },
            Prop { id: 0x08, val: PVal::Str(b"r/t".to_vec()) },
            Prop { id: 0x26, val: PVal::Pair(b"k".to_vec(), b"w".to_vec()) },
        ],
    }
}

pub fn inpub(qos: u8, pid: u16) -> InPub {
    InPub {
        qos,
        pid,
        retain: false,
        topic: "in",
        payload: vec![0xB0 | qos, pid as u8],
        props: vec![],
    }
}

/// Direct enumerations (input-space properties).
pub fn direct(prop: &str, tier: Tier, caps: &crate::explore::Caps) -> Result<Vec<crate::report::FamilyReport>, String> {
    Ok(match prop {
        "C08" => crate::direct::c08(tier, caps),
        _ => crate::direct2::direct(prop, tier, caps),
    })
}

pub fn replay_direct(v: &serde_json::Value) -> i32 {
    crate::direct::replay_case(v)
}
