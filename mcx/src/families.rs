//! Per-property families: which alphabets, bounds and environment menus are explored.
use crate::cfg::*;

#[derive(Copy, Clone, PartialEq, Eq, Debug)]
pub enum Tier {
    Quick,
    Thorough,
}

pub fn families(prop: &str, tier: Tier) -> Vec<Cfg> {
    let q = tier == Tier::Quick;
    match prop {
        "C01" => {
            let mut a = Cfg::base("C01-partial-writes-and-cancellation");
            a.props = vec!["C01"];
            a.ops = vec![OpK::Pub1, OpK::Pub2, OpK::Pub0, OpK::Sub, OpK::Unsub, OpK::Poll, OpK::Disconnect, OpK::DropConn];
            a.io = IoMenu::partial();
            a.cancel = true;
            a.max_ops = if q { 4 } else { 5 };
            a.max_conns = 2;
            a.dev = if q { 2 } else { 3 };
            a.max_reqs = 3;
            let mut b = Cfg::base("C01-faults-and-inbound");
            b.props = vec!["C01"];
            b.ops = vec![OpK::Pub1, OpK::Pub2, OpK::Sub, OpK::Poll, OpK::Drive, OpK::Disconnect, OpK::DropConn];
            b.io = IoMenu::full();
            b.cancel = true;
            b.broker.script = vec![inpub(1, 11), inpub(2, 12)];
            b.broker.may_lose_session = true;
            b.max_ops = if q { 4 } else { 6 };
            b.max_conns = if q { 2 } else { 3 };
            b.dev = if q { 1 } else { 2 };
            b.max_reqs = 3;
            vec![a, b]
        }
        _ => vec![],
    }
}

pub fn inpub(qos: u8, pid: u16) -> InPub {
    InPub {
        qos,
        pid,
        retain: false,
        topic: "in",
        payload: vec![0xB0 | qos, pid as u8],
        props: vec![],
    }
}

/// Direct enumerations (input-space properties) live here; none yet for most properties.
pub fn direct(_prop: &str, _tier: Tier, _caps: &crate::explore::Caps) -> Result<Vec<crate::report::FamilyReport>, String> {
    Ok(vec![])
}

pub fn replay_direct(_v: &serde_json::Value) -> i32 {
    2
}
