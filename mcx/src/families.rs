//! Per-property families: which alphabets, bounds and environment menus are explored.
use crate::cfg::*;

#[derive(Copy, Clone, PartialEq, Eq, Debug)]
pub enum Tier {
    Quick,
    Thorough,
}

pub fn families(prop: &str, tier: Tier) -> Vec<Cfg> {
    let mut v = families_of(prop, tier);
    // CONNACKs dressed with every further legal property (the client has no use for any of them): nothing a
    // session property says may depend on them
    const DRESSED: [(&str, &str); 7] = [
        ("C02", "C02-connack-with-further-legal-properties"),
        ("C03", "C03-connack-with-further-legal-properties"),
        ("C06", "C06-connack-with-further-legal-properties"),
        ("C12", "C12-connack-with-further-legal-properties"),
        ("C16", "C16-connack-with-further-legal-properties"),
        ("C18", "C18-connack-with-further-legal-properties"),
        ("C01", "C01-connack-with-further-legal-properties"),
    ];
    if let Some((p, name)) = DRESSED.iter().find(|(p, _)| *p == prop) {
        let q = tier == Tier::Quick;
        let mut x = Cfg::base(name);
        x.props = vec![p];
        x.ops = vec![OpK::Pub1, OpK::Pub2, OpK::Sub, OpK::Poll, OpK::DropConn];
        x.io = IoMenu::benign();
        x.broker.may_lose_session = true;
        x.broker.connack_extras = vec![0, 1, 2, 3, 4, 5, 6];
        if *p == "C06" {
            // a window of one, so that a further property mistaken for the Receive Maximum (they follow it in the
            // CONNACK and carry larger values) shows as a second publish in flight
            x.broker.receive_max = vec![Some(1)];
        }
        x.keepalive = 60;
        x.rx = 128;
        x.max_ops = if q { 6 } else { 8 };
        x.max_conns = if q { 3 } else { 4 };
        x.max_reqs = 2;
        x.dev = 0;
        v.push(x);
    }
    // everything the broker may negotiate varies from connection to connection at once (small windows, tiny and
    // moderate packet limits, a Maximum QoS below the requested one, lost sessions, refusing acknowledgements),
    // with every kind of request, empty and short payloads
    const MIXED: [(&str, &str); 9] = [
        ("C01", "C01-everything-negotiable-varies"),
        ("C02", "C02-everything-negotiable-varies"),
        ("C03", "C03-everything-negotiable-varies"),
        ("C05", "C05-everything-negotiable-varies"),
        ("C06", "C06-everything-negotiable-varies"),
        ("C12", "C12-everything-negotiable-varies"),
        ("C16", "C16-everything-negotiable-varies"),
        ("C18", "C18-everything-negotiable-varies"),
        ("C07", "C07-everything-negotiable-varies"),
    ];
    if let Some((p, name)) = MIXED.iter().find(|(p, _)| *p == prop) {
        let q = tier == Tier::Quick;
        let mut x = Cfg::base(name);
        x.props = vec![p];
        x.ops = vec![OpK::Pub1, OpK::Pub2, OpK::Sub, OpK::Unsub, OpK::Poll, OpK::DropConn];
        x.io = IoMenu::benign();
        x.payload_sizes = vec![0, 2];
        x.broker.receive_max = vec![Some(1), Some(2), None];
        x.broker.max_packet = vec![None, Some(8), Some(20)];
        x.broker.max_qos = vec![None, Some(1)];
        x.broker.may_lose_session = true;
        x.broker.ack_fail = true;
        x.max_ops = if q { 6 } else { 7 };
        x.max_conns = 3;
        x.max_reqs = if q { 3 } else { 4 };
        x.dev = 0;
        v.push(x);
    }
    // refusing PUBACKs / PUBRECs with every failure code MQTT 5 defines for them, on first and resumed connections
    const REFUSALS: [(&str, &str); 5] = [
        ("C02", "C02-every-refusing-reason-code-also-after-a-resume"),
        ("C03", "C03-every-refusing-reason-code-also-after-a-resume"),
        ("C06", "C06-every-refusing-reason-code-also-after-a-resume"),
        ("C16", "C16-every-refusing-reason-code-also-after-a-resume"),
        ("C18", "C18-every-refusing-reason-code-also-after-a-resume"),
    ];
    if let Some((p, name)) = REFUSALS.iter().find(|(p, _)| *p == prop) {
        let q = tier == Tier::Quick;
        let mut x = Cfg::base(name);
        x.props = vec![p];
        x.ops = vec![OpK::Pub1, OpK::Pub2, OpK::Poll, OpK::DropConn];
        x.io = IoMenu::benign();
        x.broker.ack_fail = true;
        x.broker.fail_codes = vec![0x80, 0x83, 0x87, 0x90, 0x91, 0x97, 0x99];
        x.broker.receive_max = vec![Some(2)];
        x.max_ops = if q { 6 } else { 7 };
        x.max_conns = 2;
        x.max_reqs = 2;
        x.dev = 0;
        v.push(x);
    }
    // a session that lives through five connections; and one configured with Session Expiry Interval 0 (the broker
    // never has a session to resume)
    const LONG: [&str; 7] = ["C02", "C03", "C05", "C06", "C12", "C16", "C18"];
    if let Some(p) = LONG.iter().find(|p| **p == prop) {
        let q = tier == Tier::Quick;
        let names: [(&str, &str); 7] = [
            ("C02-five-connections", "C02-session-expiry-zero"),
            ("C03-five-connections", "C03-session-expiry-zero"),
            ("C05-five-connections", "C05-session-expiry-zero"),
            ("C06-five-connections", "C06-session-expiry-zero"),
            ("C12-five-connections", "C12-session-expiry-zero"),
            ("C16-five-connections", "C16-session-expiry-zero"),
            ("C18-five-connections", "C18-session-expiry-zero"),
        ];
        let (n5, n0) = names[LONG.iter().position(|x| x == p).unwrap()];
        let mut x = Cfg::base(n5);
        x.props = vec![p];
        x.ops = vec![OpK::Pub1, OpK::Pub2, OpK::Sub, OpK::Poll, OpK::DropConn];
        x.io = IoMenu::benign();
        x.broker.may_lose_session = true;
        x.broker.receive_max = vec![Some(2)];
        // (keep-alive armed: most other families run with keep-alive off)
        x.keepalive = 60;
        x.max_ops = if q { 9 } else { 11 };
        x.max_conns = 5;
        x.max_reqs = 2;
        x.dev = 0;
        v.push(x);
        let mut z = Cfg::base(n0);
        z.props = vec![p];
        z.expiry = 0;
        z.ops = vec![OpK::Pub1, OpK::Pub2, OpK::Sub, OpK::Poll, OpK::DropConn];
        z.io = IoMenu::benign();
        z.io.write_pending = true;
        z.cancel = true;
        z.max_ops = if q { 7 } else { 8 };
        z.max_conns = 3;
        z.max_reqs = 2;
        z.dev = 1;
        v.push(z);
    }
    // successful acknowledgements in every legal form (shortest, explicit reason code, explicit property length,
    // with Reason String and User Properties)
    const FORMS: [(&str, &str); 6] = [
        ("C02", "C02-acknowledgements-in-every-legal-form"),
        ("C03", "C03-acknowledgements-in-every-legal-form"),
        ("C06", "C06-acknowledgements-in-every-legal-form"),
        ("C16", "C16-acknowledgements-in-every-legal-form"),
        ("C18", "C18-acknowledgements-in-every-legal-form"),
        ("C07", "C07-acknowledgements-in-every-legal-form"),
    ];
    if let Some((p, name)) = FORMS.iter().find(|(p, _)| *p == prop) {
        let q = tier == Tier::Quick;
        let mut x = Cfg::base(name);
        x.props = vec![p];
        x.ops = vec![OpK::Pub1, OpK::Pub2, OpK::Sub, OpK::Unsub, OpK::Poll, OpK::Recv, OpK::Drive, OpK::DropConn];
        x.io = IoMenu::benign();
        x.broker.ack_forms = true;
        x.broker.receive_max = vec![Some(2)];
        x.rx = 128;
        x.max_ops = if q { 6 } else { 8 };
        x.max_conns = 2;
        x.max_reqs = if q { 2 } else { 3 };
        x.dev = 0;
        v.push(x);
    }
    v
}

fn families_of(prop: &str, tier: Tier) -> Vec<Cfg> {
    let q = tier == Tier::Quick;
    match prop {
        "C01" => {
            let mut a = Cfg::base("C01-partial-writes-and-cancellation");
            a.must_reach = vec!["operation cancelled with a packet half written"];
            a.props = vec!["C01"];
            a.ops = vec![OpK::Pub1, OpK::Pub2, OpK::Pub0, OpK::Sub, OpK::Unsub, OpK::Poll, OpK::Disconnect, OpK::DropConn];
            a.io = IoMenu::partial();
            a.cancel = true;
            a.max_ops = if q { 5 } else { 6 };
            a.max_conns = 2;
            a.dev = if q { 2 } else { 3 };
            a.max_reqs = 3;
            let mut b = Cfg::base("C01-faults-and-inbound");
            b.must_reach = vec!["transport fault while a packet is half written", "operation cancelled with a packet half written"];
            b.props = vec!["C01"];
            b.ops = vec![OpK::Pub1, OpK::Pub2, OpK::Sub, OpK::Poll, OpK::Drive, OpK::Disconnect, OpK::DropConn];
            b.io = IoMenu::full();
            b.cancel = true;
            b.broker.script = vec![inpub(1, 11), inpub(2, 12)];
            b.broker.may_lose_session = true;
            b.max_ops = if q { 5 } else { 6 };
            b.max_conns = if q { 2 } else { 3 };
            b.dev = if q { 2 } else { 3 };
            b.max_reqs = 3;
            // keep-alive traffic falling due while another packet is half written
            let mut c = Cfg::base("C01-pingreq-due-during-partial-writes");
            c.props = vec!["C01"];
            c.keepalive = 10;
            c.ops = vec![OpK::Pub1, OpK::Pub0, OpK::Poll, OpK::Drive, OpK::Sleep];
            c.sleeps = vec![5_000];
            c.io = IoMenu::partial();
            c.io.all_partials_upto = 6;
            c.cancel = true;
            c.max_ops = if q { 5 } else { 7 };
            c.max_conns = if q { 1 } else { 2 };
            if !q {
                c.ops.push(OpK::DropConn);
            }
            c.max_reqs = 2;
            c.dev = 2;
            let mut v = vec![a, b, c];
            if !q {
                // packets with a two-byte remaining length
                let mut d = Cfg::base("C01-two-byte-remaining-length");
                d.props = vec!["C01"];
                d.tx = 512;
                d.payload_sizes = vec![2, 130];
                d.pub_retain = vec![false, true];
                d.ops = vec![OpK::Pub1, OpK::Pub0, OpK::Pub2, OpK::Poll, OpK::DropConn];
                d.io = IoMenu::partial();
                d.cancel = true;
                d.max_ops = 5;
                d.max_conns = 2;
                d.max_reqs = 2;
                d.dev = 2;
                v.push(d);
            }
            let mut e = Cfg::base("C01-rich-packets-large-connect");
            e.must_reach = vec!["outbound packet with a two-byte remaining length written in pieces", "CONNECT of more than 127 bytes", "operation cancelled with a packet half written"];
            e.props = vec!["C01"];
            e.ops = vec![OpK::Pub1, OpK::Pub2, OpK::Pub0, OpK::Sub, OpK::Unsub, OpK::Poll, OpK::Disconnect, OpK::DropConn];
            e.io = IoMenu::partial();
            e.cancel = true;
            rich(&mut e);
            // (nine filters: a SUBSCRIBE / UNSUBSCRIBE with a two-byte remaining length right behind a short packet)
            e.sub_counts = vec![1, 3, 9];
            e.max_ops = if q { 4 } else { 5 };
            e.max_conns = 2;
            e.max_reqs = 2;
            e.dev = 2;
            v.push(e);
            // the keep-alive timeout fires while a packet is half written; the application goes on calling
            let mut f = Cfg::base("C01-keepalive-timeout-with-packet-half-written");
            f.must_reach = vec!["keep-alive timeout (PINGREQ unanswered)", "keep-alive timeout while an outbound packet is half written"];
            f.props = vec!["C01"];
            f.keepalive = 10;
            f.ops = vec![OpK::Pub1, OpK::Poll, OpK::Drive, OpK::Sleep];
            f.sleeps = vec![5_000];
            f.io = IoMenu::partial();
            f.io.all_partials_upto = 4;
            f.io.read_partial = false;
            f.cancel = true;
            f.broker.mute_pingresp = true;
            f.max_ops = if q { 7 } else { 8 };
            f.max_conns = 1;
            f.max_reqs = 1;
            f.dev = 2;
            f.drain = false;
            v.push(f);
            // disconnect() right after a cancelled operation left a packet half written, under further
            // partial writes
            let mut k = Cfg::base("C01-disconnect-after-half-written-packet");
            k.props = vec!["C01"];
            k.ops = vec![OpK::Pub1, OpK::Sub, OpK::Disconnect];
            k.io = IoMenu::partial();
            k.io.all_partials_upto = 3;
            k.io.read_partial = false;
            k.io.read_pending = false;
            k.cancel = true;
            k.cancel_only = Some(vec![OpK::Pub1, OpK::Sub]);
            k.max_ops = 3;
            k.max_conns = 1;
            k.max_reqs = 1;
            k.dev = if q { 3 } else { 4 };
            k.drain = false;
            v.push(k);
            // the broker sends more QoS 2 publishes than the client's Receive Maximum allows
            let mut h = Cfg::base("C01-broker-exceeds-receive-maximum");
            h.props = vec!["C01"];
            h.ops = vec![OpK::Recv, OpK::Poll, OpK::Pub1];
            h.io = IoMenu::benign();
            h.io.write_pending = true;
            h.cancel = true;
            h.broker.script = (1..=10).map(|i| inpub(2, i)).collect();
            h.broker.script_burst = true;
            h.broker.overrun = true;
            h.broker.fifo = true;
            h.broker.reorder_window = 1;
            h.max_ops = if q { 12 } else { 13 };
            h.max_conns = 1;
            h.max_reqs = 1;
            h.dev = 1;
            h.drain = false;
            v.push(h);
            // a packet of more than 64 KiB accepted by the transport in pieces
            let mut g = Cfg::base("C01-packet-larger-than-64KiB");
            g.must_reach = vec!["outbound packet of more than 65535 bytes accepted in pieces"];
            g.props = vec!["C01"];
            g.tx = 80_000;
            g.payload_sizes = vec![70_000];
            g.ops = vec![OpK::Pub1, OpK::Poll, OpK::DropConn];
            g.io = IoMenu::partial();
            g.io.all_partials_upto = 0;
            g.io.read_partial = false;
            g.io.read_pending = false;
            g.cancel = true;
            g.max_ops = 4;
            g.max_conns = 2;
            g.max_reqs = 1;
            g.dev = if q { 2 } else { 3 };
            let mut g2 = g.clone();
            g2.family = "C01-packet-larger-than-64KiB-16KiB-writes";
            g2.io.max_write = 16_384;
            g2.watchdog_calls = 400;
            g2.dev = 1;
            v.push(g);
            v.push(g2);
            // the transport fails in the middle of a packet with an error of any kind (a "write zero" kind among them),
            // then whatever the application calls next
            let mut ek = Cfg::base("C01-any-kind-of-transport-error-inside-a-packet");
            ek.props = vec!["C01"];
            ek.ops = vec![OpK::Pub0, OpK::Pub1, OpK::Sub, OpK::Poll, OpK::Disconnect];
            ek.io = IoMenu::partial();
            ek.io.write_err = true;
            ek.io.err_keeps_open = true;
            ek.fault_kinds = 18;
            ek.max_ops = if q { 4 } else { 5 };
            ek.max_conns = 1;
            ek.max_reqs = 3;
            ek.dev = 2;
            v.push(ek);
            // a write that accepts nothing (Ok(0)) in the middle of a packet left half written by a dropped call, then
            // disconnect() or any other call
            let mut wz = Cfg::base("C01-write-accepting-nothing-inside-a-packet");
            wz.props = vec!["C01"];
            wz.ops = vec![OpK::Pub1, OpK::Pub0, OpK::Poll, OpK::Disconnect];
            wz.io = IoMenu::partial();
            wz.io.write_zero = true;
            wz.cancel = true;
            wz.max_ops = if q { 4 } else { 5 };
            wz.max_conns = 1;
            wz.max_reqs = 2;
            wz.dev = 3;
            v.push(wz);
            // credentials in their unusual legal forms: user name with a zero-length password, with and without a will
            for (name, will) in [("C01-connect-with-user-name-and-empty-password", false), ("C01-connect-with-empty-password-and-will", true)] {
                let mut h = Cfg::base(name);
                h.props = vec!["C01"];
                h.auth = true;
                h.empty_password = true;
                h.will = will;
                h.ops = vec![OpK::Pub1, OpK::Poll, OpK::Disconnect, OpK::DropConn];
                h.io = IoMenu::partial();
                h.cancel = true;
                h.max_ops = 4;
                h.max_conns = 2;
                h.max_reqs = 1;
                h.dev = 1;
                v.push(h);
            }
            v
        }
        "C09" => {
            // C09 inside the scheduled world: what reaches the wire under partial writes, cancellation and
            // replay is what the application asked for (the direct sweeps cover the field space)
            let mut a = Cfg::base("C09-content-under-partial-writes-and-replay");
            a.must_reach = vec!["outbound packet with a two-byte remaining length written in pieces", "CONNECT of more than 127 bytes"];
            a.props = vec!["C09"];
            a.ops = vec![OpK::Pub0, OpK::Pub1, OpK::Pub2, OpK::Sub, OpK::Unsub, OpK::Poll, OpK::DropConn];
            a.io = IoMenu::partial();
            a.cancel = true;
            rich(&mut a);
            a.pub_retain = vec![false, true];
            a.max_ops = if q { 4 } else { 5 };
            a.max_conns = 2;
            a.max_reqs = 2;
            a.dev = if q { 1 } else { 2 };
            // what the broker answered on one connection (Server Keep Alive, Receive Maximum, Maximum Packet
            // Size, assigned identifier ...) must not leak into the CONNECT of the next one
            let mut b = Cfg::base("C09-connect-after-broker-overrides");
            b.props = vec!["C09"];
            b.keepalive = 30;
            b.will = true;
            b.auth = true;
            b.ops = vec![OpK::Pub1, OpK::DropConn];
            b.io = IoMenu::benign();
            b.broker.server_keepalive = vec![None, Some(0), Some(7), Some(600)];
            b.broker.receive_max = if q { vec![None] } else { vec![None, Some(1)] };
            b.broker.max_packet = if q { vec![None] } else { vec![None, Some(64)] };
            b.broker.may_lose_session = true;
            b.max_ops = if q { 6 } else { 7 };
            b.max_conns = 3;
            b.max_reqs = 1;
            b.dev = 0;
            b.drain = false;
            vec![a, b]
        }
        "C02" => {
            // connection death at every I/O call, cancellation, ack orders, resumed reconnects
            let mut a = Cfg::base("C02-crash-points-and-resume");
            a.must_reach = vec!["replay of several packets on a resumed connection", "request retransmitted on a third connection"];
            a.props = vec!["C02"];
            a.ops = vec![OpK::Pub1, OpK::Pub2, OpK::Sub, OpK::Poll, OpK::DropConn];
            a.io = IoMenu::faults_only();
            a.io.write_pending = true;
            a.io.flush_pending = true;
            a.cancel = true;
            a.max_ops = if q { 7 } else { 9 };
            a.max_conns = if q { 3 } else { 4 };
            a.max_reqs = if q { 3 } else { 4 };
            a.dev = if q { 1 } else { 2 };
            let mut b = Cfg::base("C02-partial-writes-then-death");
            b.must_reach = vec!["transport fault while a packet is half written", "replay of several packets on a resumed connection"];
            b.props = vec!["C02"];
            b.ops = vec![OpK::Pub1, OpK::Poll, OpK::DropConn, OpK::Forget];
            b.io = IoMenu::full();
            b.cancel = true;
            b.max_ops = if q { 6 } else { 8 };
            b.max_conns = 3;
            b.max_reqs = if q { 3 } else { 4 };
            b.dev = 2;
            let mut c = Cfg::base("C02-buffering-transport");
            c.props = vec!["C02"];
            c.ops = vec![OpK::Pub1, OpK::Poll, OpK::DropConn];
            c.io = IoMenu::faults_only();
            c.io.write_pending = true;
            c.io.flush_pending = true;
            c.io.deliver_on_flush = true;
            c.cancel = true;
            c.max_ops = if q { 6 } else { 8 };
            c.max_conns = 3;
            c.max_reqs = 3;
            c.dev = 2;
            // a transport that takes a few bytes per write (at no cost in deviations) and whose flushes may stall, with
            // the caller giving up at the stall and using the connection again
            let mut cf = Cfg::base("C02-fragmenting-transport-with-stalled-flushes");
            cf.props = vec!["C02"];
            cf.ops = vec![OpK::Pub1, OpK::Poll, OpK::Drive, OpK::DropConn];
            cf.io = IoMenu::benign();
            cf.io.max_write = 5;
            cf.io.write_pending = true;
            cf.io.flush_pending = true;
            cf.cancel = true;
            cf.max_ops = if q { 6 } else { 7 };
            cf.max_conns = 2;
            cf.max_reqs = 3;
            cf.dev = 2;
            // the broker's Maximum Packet Size differs from connection to connection
            let mut d = Cfg::base("C02-maximum-packet-size-changes-between-connections");
            d.props = vec!["C02"];
            d.ops = vec![OpK::Pub1, OpK::Poll, OpK::DropConn];
            d.io = IoMenu::benign();
            d.broker.max_packet = vec![None, Some(9), Some(64)];
            d.max_ops = if q { 7 } else { 9 };
            d.max_conns = if q { 3 } else { 4 };
            d.max_reqs = 2;
            d.dev = 0;
            let mut e = Cfg::base("C02-rich-packets-large-connect");
            e.must_reach = vec!["outbound packet with a two-byte remaining length written in pieces", "CONNECT of more than 127 bytes", "replay of several packets on a resumed connection"];
            e.props = vec!["C02"];
            e.ops = vec![OpK::Pub1, OpK::Pub0, OpK::Sub, OpK::Poll, OpK::DropConn];
            e.io = IoMenu::faults_only();
            e.io.write_partial = true;
            e.io.write_pending = true;
            e.cancel = true;
            rich(&mut e);
            e.pub_retain = vec![false, true];
            e.max_ops = if q { 6 } else { 7 };
            e.max_conns = 3;
            e.max_reqs = if q { 2 } else { 3 };
            e.dev = if q { 1 } else { 2 };
            // up to eight publishes in flight, acknowledged in any order, then resumed
            let mut f = Cfg::base("C02-eight-in-flight");
            f.must_reach = vec!["eight publishes unresolved at the broker", "replay of several packets on a resumed connection"];
            f.props = vec!["C02"];
            f.ops = vec![OpK::Pub1, OpK::Poll, OpK::DropConn];
            f.io = IoMenu::benign();
            f.broker.reorder_window = if q { 2 } else { 3 };
            f.tx = 512;
            f.preludes = vec![vec![OpK::Pub1; 8], vec![OpK::Pub1; 5]];
            f.max_ops = if q { 14 } else { 16 };
            f.max_conns = 2;
            f.max_reqs = 10;
            f.dev = 0;
            // the arena so full of unacknowledged publishes that a CONNECT hardly fits (or does not: then connect()
            // refuses - C12's recorded finding - but whatever connects with the session present must replay)
            let mut g = Cfg::base("C02-arena-nearly-full");
            g.props = vec!["C02"];
            g.tx = 96;
            g.payload_sizes = vec![80, 60, 2];
            g.ops = vec![OpK::Pub1, OpK::Poll, OpK::DropConn];
            g.io = IoMenu::faults_only();
            g.max_ops = 5;
            g.max_conns = 3;
            g.max_reqs = 2;
            g.dev = 1;
            // identifiers straddling the wrap of the 16-bit counter (the older request has the larger identifier)
            let mut wr = Cfg::base("C02-identifiers-straddling-the-wrap");
            wr.props = vec!["C02"];
            wr.start_pid = Some(65534);
            wr.ops = vec![OpK::Pub1, OpK::Poll, OpK::DropConn];
            wr.io = IoMenu::benign();
            wr.io.write_pending = true;
            wr.cancel = true;
            wr.broker.reorder_window = 3;
            wr.max_ops = if q { 7 } else { 8 };
            wr.max_conns = if q { 2 } else { 3 };
            wr.max_reqs = 4;
            wr.dev = 1;
            vec![a, b, c, cf, d, e, f, g, wr]
        }
        "C03" => {
            let mut a = Cfg::base("C03-qos2-orders-and-crashes");
            a.props = vec!["C03"];
            a.ops = vec![OpK::Pub2, OpK::Poll, OpK::DropConn];
            a.io = IoMenu::faults_only();
            a.io.write_pending = true;
            a.cancel = true;
            a.broker.ack_fail = true;
            a.max_ops = if q { 9 } else { 11 };
            a.max_conns = if q { 2 } else { 3 };
            a.max_reqs = if q { 3 } else { 4 };
            a.dev = if q { 1 } else { 2 };
            let mut b = Cfg::base("C03-qos2-mixed-with-qos1");
            b.props = vec!["C03"];
            b.ops = vec![OpK::Pub2, OpK::Pub1, OpK::Poll, OpK::DropConn];
            b.io = IoMenu::partial();
            b.cancel = true;
            // inbound QoS 2 exchanges whose identifiers collide with the outbound ones
            b.broker.script = vec![inpub(2, 1), inpub(2, 2)];
            b.max_ops = if q { 6 } else { 8 };
            b.max_conns = 2;
            b.max_reqs = 3;
            b.dev = if q { 1 } else { 2 };
            // exchanges that share the in-flight list with unacknowledged SUBSCRIBE / UNSUBSCRIBE / QoS 1 entries
            let mut c = Cfg::base("C03-qos2-among-other-unacknowledged-requests");
            c.props = vec!["C03"];
            c.ops = vec![OpK::Sub, OpK::Pub2, OpK::Unsub, OpK::Pub1, OpK::Poll, OpK::DropConn];
            c.io = IoMenu::benign();
            c.broker.ack_fail = true;
            c.max_ops = if q { 8 } else { 10 };
            c.max_conns = 2;
            c.max_reqs = if q { 3 } else { 4 };
            c.dev = 0;
            let mut d = Cfg::base("C03-rich-packets-large-connect");
            d.must_reach = vec!["outbound packet with a two-byte remaining length written in pieces", "CONNECT of more than 127 bytes"];
            d.props = vec!["C03"];
            d.ops = vec![OpK::Pub2, OpK::Pub0, OpK::Poll, OpK::DropConn];
            d.io = IoMenu::faults_only();
            d.io.write_partial = true;
            d.io.write_pending = true;
            d.cancel = true;
            rich(&mut d);
            d.pub_retain = vec![false, true];
            d.max_ops = if q { 6 } else { 7 };
            d.max_conns = 2;
            d.max_reqs = 2;
            d.dev = if q { 1 } else { 2 };
            // up to eight exchanges under way at once (the release list full), PUBRECs and PUBCOMPs in any
            // order within a window, then resumed
            let mut e = Cfg::base("C03-eight-exchanges-under-way");
            e.must_reach = vec!["eight publishes unresolved at the broker", "eight QoS 2 exchanges waiting for PUBCOMP", "nine or more requests live (publishes + subscribe/unsubscribe)"];
            e.props = vec!["C03"];
            e.ops = vec![OpK::Pub2, OpK::Poll, OpK::DropConn];
            e.io = IoMenu::benign();
            e.broker.reorder_window = 2;
            e.tx = 512;
            e.preludes = vec![
                vec![OpK::Pub2; 8],
                vec![OpK::Sub, OpK::Pub2, OpK::Pub2, OpK::Pub2, OpK::Pub2, OpK::Pub2, OpK::Pub2, OpK::Pub2],
                vec![OpK::Sub, OpK::Unsub, OpK::Sub, OpK::Pub1, OpK::Pub2, OpK::Pub2, OpK::Pub2, OpK::Pub2],
            ];
            e.max_ops = if q { 15 } else { 17 };
            e.max_conns = 2;
            e.max_reqs = 10;
            e.dev = 0;
            // the broker's Maximum Packet Size differs from connection to connection (tiny values: the PUBREL
            // still fits, the PUBLISH does not)
            let mut f = Cfg::base("C03-maximum-packet-size-changes-between-connections");
            f.props = vec!["C03"];
            f.ops = vec![OpK::Pub2, OpK::Poll, OpK::DropConn];
            f.io = IoMenu::benign();
            f.broker.max_packet = vec![None, Some(5), Some(8), Some(64)];
            // (an 8-byte PUBLISH - one-letter topic, no payload - fits the limit 8)
            f.payload_sizes = vec![0, 2];
            f.max_ops = if q { 8 } else { 10 };
            f.max_conns = if q { 3 } else { 4 };
            f.max_reqs = 2;
            f.dev = 0;
            // acknowledgements for an identifier the client does not (or no longer) know - successful or refusing - on
            // first and resumed connections: no PUBREL, nothing replayed for them
            let mut st = Cfg::base("C03-stale-acknowledgements-also-after-a-resume");
            st.props = vec!["C03"];
            st.ops = vec![OpK::Pub2, OpK::Poll, OpK::DropConn];
            st.io = IoMenu::benign();
            st.broker.stale_acks = true;
            st.max_ops = if q { 6 } else { 7 };
            st.max_conns = if q { 2 } else { 3 };
            st.max_reqs = 2;
            st.dev = if q { 1 } else { 2 };
            let mut wr = Cfg::base("C03-identifiers-straddling-the-wrap");
            wr.props = vec!["C03"];
            wr.start_pid = Some(65534);
            wr.ops = vec![OpK::Pub2, OpK::Poll, OpK::DropConn];
            wr.io = IoMenu::benign();
            wr.broker.reorder_window = 3;
            wr.max_ops = if q { 8 } else { 9 };
            wr.max_conns = if q { 2 } else { 3 };
            wr.max_reqs = 3;
            wr.dev = 0;
            vec![a, b, c, d, e, f, st, wr]
        }
        "C04" => {
            let mut a = Cfg::base("C04-inbound-qos012-interleaved");
            a.must_reach = vec!["inbound publish delivered with properties"];
            a.props = vec!["C04"];
            // (outbound QoS 1 / QoS 2 identifiers 1, 2 ... collide with the inbound ones)
            a.ops = vec![OpK::Poll, OpK::Pub1, OpK::Pub2, OpK::Drive, OpK::DropConn];
            a.io = IoMenu::partial();
            a.io.read_err = true;
            a.cancel = true;
            a.broker.script = vec![inpub(1, 1), inpub_rich(1, 258), inpub(2, 1), inpub(1, 65535), inpub(0, 0), inpub(2, 258)];
            a.broker.dup_retransmit = true;
            a.broker.stale_acks = true;
            a.broker.may_lose_session = true;
            a.max_ops = if q { 7 } else { 9 };
            a.max_conns = if q { 2 } else { 3 };
            a.max_reqs = if q { 1 } else { 2 };
            a.dev = if q { 1 } else { 2 };
            // transmit arena full: acks must still go out
            let mut b = Cfg::base("C04-arena-full");
            b.props = vec!["C04"];
            b.tx = 40;
            // 32 bytes (8 left in the arena) and 35 bytes (5 left: less than any acknowledgement needs)
            b.payload_sizes = vec![24, 27];
            b.ops = vec![OpK::Pub1, OpK::Poll, OpK::DropConn];
            b.io = IoMenu::benign();
            b.io.write_pending = true;
            b.cancel = true;
            b.broker.script = vec![inpub(1, 7), inpub(2, 9)];
            b.broker.reorder_window = 4;
            b.max_ops = if q { 7 } else { 9 };
            b.max_conns = 2;
            b.max_reqs = 2;
            b.dev = 1;
            // many inbound messages back to back in the transport, every read split anywhere once or twice
            let mut c = Cfg::base("C04-inbound-burst");
            c.must_reach = vec!["inbound publish delivered with properties"];
            c.props = vec!["C04"];
            c.ops = vec![OpK::Poll, OpK::Recv, OpK::DropConn];
            c.io = IoMenu::benign();
            c.io.read_partial = true;
            c.io.all_partials_upto = 4;
            c.io.write_pending = true;
            c.broker.script = vec![
                inpub(2, 1),
                inpub(1, 2),
                inpub(2, 3),
                inpub(0, 0),
                inpub_rich(2, 4),
                inpub(1, 5),
                inpub(2, 6),
                inpub(2, 7),
                inpub_rich(1, 8),
                inpub_big(2, 9),
            ];
            c.broker.script_burst = true;
            c.broker.fifo = true;
            c.broker.reorder_window = 1;
            // (the broker's own Receive Maximum - the window for the CLIENT's publishes - says nothing about how many
            // inbound exchanges the client has to accept: that is the Receive Maximum the client advertised)
            c.broker.receive_max = vec![None, Some(1), Some(2)];
            c.rx = 512;
            c.max_ops = if q { 12 } else { 14 };
            c.max_conns = 2;
            c.max_reqs = 0;
            c.dev = if q { 1 } else { 2 };
            // the inbound QoS 2 table full (eight identifiers pending) and the broker retransmits
            let mut d = Cfg::base("C04-inbound-qos2-table-full-with-retransmissions");
            d.must_reach = vec!["inbound QoS 2 table full (8 identifiers pending)", "broker retransmits a pending inbound QoS 2 publish while the table is full"];
            d.props = vec!["C04"];
            d.ops = vec![OpK::Recv, OpK::Poll, OpK::DropConn];
            d.io = IoMenu::benign();
            d.broker.script = (1..=8).map(|i| inpub(2, i)).chain(std::iter::once(inpub(1, 1))).collect();
            d.broker.script_burst = true;
            d.broker.dup_retransmit = true;
            d.broker.reorder_window = 1;
            d.max_ops = if q { 12 } else { 13 };
            d.max_conns = 2;
            d.max_reqs = 0;
            d.dev = if q { 1 } else { 2 };
            // the broker's PUBREL in each of its legal forms (short, reason 0x92, explicit property length), identifiers
            // reused after their release
            let mut e = Cfg::base("C04-pubrel-in-every-legal-form");
            e.props = vec!["C04"];
            e.ops = vec![OpK::Poll, OpK::Recv, OpK::DropConn];
            e.io = IoMenu::benign();
            e.io.write_pending = true;
            e.cancel = true;
            e.broker.pubrel_forms = true;
            e.broker.script = vec![inpub(2, 9), inpub(2, 10), inpub(1, 9)];
            e.broker.dup_retransmit = true;
            e.max_ops = if q { 8 } else { 10 };
            e.max_conns = 2;
            e.max_reqs = 0;
            e.dev = if q { 1 } else { 2 };
            // keep-alive deadlines falling due in the very wake-up in which an inbound publish has been read completely,
            // with transport faults on whatever the client writes next
            let mut k = Cfg::base("C04-inbound-publish-racing-a-keep-alive-deadline");
            k.props = vec!["C04"];
            k.keepalive = 10;
            k.ops = vec![OpK::Poll, OpK::Recv, OpK::Sleep];
            k.sleeps = vec![5_000];
            k.io = IoMenu::faults_only();
            k.broker.script = vec![inpub(0, 0), inpub(1, 5), inpub(2, 6)];
            k.broker.mute_pingresp = true;
            k.max_ops = if q { 5 } else { 6 };
            k.max_conns = 2;
            k.max_reqs = 0;
            k.late_timer_ms = 1;
            k.dev = 2;
            // every way the application can end a connection while acknowledgements are owed (returned by recv and
            // not yet written, or stuck behind a stalled write), followed by a resumed connection on which the
            // broker retransmits
            let mut g = Cfg::base("C04-connection-ended-by-the-application-with-acknowledgements-owed");
            g.props = vec!["C04"];
            g.ops = vec![OpK::Recv, OpK::Poll, OpK::Disconnect, OpK::DropConn, OpK::Forget, OpK::MarkDead];
            g.io = IoMenu::benign();
            g.io.write_pending = true;
            g.cancel = true;
            g.broker.script = vec![inpub(2, 9), inpub(1, 5)];
            g.broker.dup_retransmit = true;
            g.max_ops = if q { 7 } else { 9 };
            g.max_conns = if q { 2 } else { 3 };
            g.max_reqs = 0;
            g.dev = if q { 2 } else { 3 };
            vec![a, b, c, d, e, k, g]
        }
        "C05" => {
            let mut a = Cfg::base("C05-handshake-variants");
            a.must_reach = vec!["fresh broker session while requests were in flight", "replay of several packets on a resumed connection"];
            a.props = vec!["C05"];
            a.ops = vec![OpK::Pub1, OpK::Pub2, OpK::Sub, OpK::Unsub, OpK::Poll, OpK::DropConn];
            a.io = IoMenu::faults_only();
            a.io.write_pending = true;
            a.io.read_pending = true;
            a.cancel = true;
            a.broker.bad_handshake = true;
            a.broker.may_lose_session = true;
            a.broker.assigned_id = vec![None, Some("assigned-by-broker")];
            a.max_ops = if q { 6 } else { 8 };
            a.max_conns = if q { 3 } else { 4 };
            a.max_reqs = if q { 2 } else { 3 };
            a.dev = if q { 1 } else { 2 };
            // no client identifier configured: the broker may or may not assign one
            let mut n = Cfg::base("C05-no-client-identifier-configured");
            n.props = vec!["C05"];
            n.client_id = "";
            n.ops = vec![OpK::Pub1, OpK::Pub2, OpK::Sub, OpK::Poll, OpK::DropConn];
            n.io = IoMenu::benign();
            n.broker.may_lose_session = true;
            n.broker.assigned_id = vec![None, Some("assigned-by-broker")];
            n.broker.connack_extras = vec![0, 1, 2];
            n.max_ops = if q { 7 } else { 8 };
            n.max_conns = if q { 3 } else { 4 };
            n.max_reqs = 2;
            n.dev = 0;
            // CONNACKs carrying every further legal property (session expiry 0 / max, capability flags, topic alias
            // maximum, reason string, user properties, response information, server reference)
            let mut x = Cfg::base("C05-connack-with-further-legal-properties");
            x.props = vec!["C05"];
            x.ops = vec![OpK::Pub1, OpK::Pub2, OpK::Sub, OpK::Poll, OpK::DropConn];
            x.io = IoMenu::benign();
            x.broker.may_lose_session = true;
            x.broker.connack_extras = vec![0, 1, 2, 3, 4, 5, 6];
            x.rx = 128;
            x.max_ops = if q { 6 } else { 8 };
            x.max_conns = if q { 3 } else { 4 };
            x.max_reqs = 2;
            x.dev = 0;
            // the identifier counter has come round exactly to its initial value when a fresh session begins
            let mut w = Cfg::base("C05-fresh-session-after-the-identifier-counter-wrapped");
            w.props = vec!["C05"];
            w.ops = vec![OpK::Pub1, OpK::Sub, OpK::Poll, OpK::Age, OpK::DropConn];
            w.io = IoMenu::benign();
            w.broker.may_lose_session = true;
            w.age_targets = vec![1, 2, 65535];
            w.max_ops = if q { 7 } else { 8 };
            w.max_conns = if q { 2 } else { 3 };
            w.max_reqs = 2;
            w.dev = 0;
            w.watchdog_calls = 600;
            let mut r = Cfg::base("C05-rich-packets-large-connect");
            r.must_reach = vec!["CONNECT of more than 127 bytes", "fresh broker session while requests were in flight", "replay of several packets on a resumed connection"];
            r.props = vec!["C05"];
            r.ops = vec![OpK::Pub1, OpK::Pub2, OpK::Sub, OpK::Unsub, OpK::Poll, OpK::DropConn];
            r.io = IoMenu::faults_only();
            r.io.write_pending = true;
            r.cancel = true;
            r.broker.may_lose_session = true;
            r.broker.assigned_id = vec![None, Some("assigned-by-broker")];
            rich(&mut r);
            r.max_ops = if q { 6 } else { 7 };
            r.max_conns = 3;
            r.max_reqs = 2;
            r.dev = if q { 1 } else { 2 };
            if !q {
                r.sub_counts = vec![3];
                r.pub_shapes = vec![1, 2];
            }
            // the application closes connections itself, in every form of DISCONNECT (plain, disconnect_with, asking the
            // broker to keep the session for 300 s / for ever, with a reason code), with requests in flight
            let mut dg = Cfg::base("C05-connections-closed-by-disconnect-in-every-form");
            dg.props = vec!["C05"];
            dg.ops = vec![OpK::Pub1, OpK::Pub2, OpK::Sub, OpK::Poll, OpK::Disconnect, OpK::DropConn];
            dg.io = IoMenu::benign();
            dg.io.write_pending = true;
            dg.cancel = true;
            dg.disc_forms = true;
            dg.broker.may_lose_session = true;
            dg.max_ops = if q { 6 } else { 8 };
            dg.max_conns = if q { 3 } else { 4 };
            dg.max_reqs = 2;
            dg.dev = 1;
            if !q {
                // the full menu of handshake failures with two deviations is explored on three connections;
                // four connections with one deviation
                let mut b = a.clone();
                b.family = "C05-handshake-variants-four-connections";
                b.dev = 1;
                a.max_conns = 3;
                return vec![a, b, r, n, x, w, dg];
            }
            vec![a, r, n, x, w, dg]
        }
        "C06" => {
            let mut v = Vec::new();
            for (i, rm) in [Some(1u16), Some(2), Some(3)].into_iter().enumerate() {
                if q && i == 2 {
                    continue;
                }
                let mut a = Cfg::base(match i {
                    0 => "C06-receive-maximum-1",
                    1 => "C06-receive-maximum-2",
                    _ => "C06-receive-maximum-3",
                });
                a.props = vec!["C06"];
                a.ops = vec![OpK::Pub1, OpK::Pub2, OpK::Poll, OpK::DropConn];
                a.io = IoMenu::benign();
                a.io.write_pending = true;
                a.cancel = true;
                a.broker.receive_max = vec![rm];
                a.broker.ack_fail = true;
                if !q {
                    a.pub_retain = vec![false, true];
                }
                a.max_ops = if q { 7 } else { 9 };
                a.max_conns = 2;
                a.max_reqs = if q { 3 } else { 4 };
                a.dev = 1;
                v.push(a);
            }
            // the broker changes its Receive Maximum between two connections of one session
            let mut c = Cfg::base("C06-receive-maximum-changes-on-resume");
            c.props = vec!["C06"];
            c.ops = vec![OpK::Pub1, OpK::Pub2, OpK::Poll, OpK::DropConn];
            c.io = IoMenu::benign();
            c.broker.receive_max = vec![Some(2), Some(1), Some(3)];
            c.pub_retain = vec![false, true];
            c.max_ops = if q { 7 } else { 10 };
            c.max_conns = if q { 2 } else { 3 };
            c.max_reqs = if q { 3 } else { 4 };
            c.dev = 0;
            v.push(c);
            // SUBSCRIBE / UNSUBSCRIBE traffic while the window is partly used
            let mut su = Cfg::base("C06-window-with-subscribe-and-unsubscribe-traffic");
            su.props = vec!["C06"];
            su.ops = vec![OpK::Pub1, OpK::Pub2, OpK::Sub, OpK::Unsub, OpK::Poll];
            su.io = IoMenu::benign();
            su.broker.receive_max = vec![Some(2), Some(3)];
            su.broker.reorder_window = 2;
            su.broker.ack_fail = true;
            su.max_ops = if q { 7 } else { 9 };
            su.max_conns = 1;
            // ... and across a resumed reconnect (the window of the new connection counts what is still in flight)
            let mut sr = su.clone();
            sr.family = "C06-subscribe-and-unsubscribe-traffic-then-resumed";
            sr.ops = vec![OpK::Pub1, OpK::Pub2, OpK::Sub, OpK::Unsub, OpK::Poll, OpK::DropConn];
            sr.broker.reorder_window = 1;
            sr.broker.ack_fail = false;
            sr.max_ops = if q { 8 } else { 9 };
            sr.max_conns = 2;
            sr.max_reqs = if q { 5 } else { 6 };
            v.push(sr);
            su.max_reqs = if q { 5 } else { 6 };
            su.dev = 0;
            v.push(su);
            // refusals for different reasons one after the other (window full, packet too large), then an
            // accepted publish
            let mut r = Cfg::base("C06-window-and-size-refusals");
            r.props = vec!["C06"];
            r.ops = vec![OpK::Pub1, OpK::Pub2, OpK::Pub0, OpK::Poll, OpK::DropConn];
            r.io = IoMenu::benign();
            r.broker.receive_max = vec![Some(1), Some(2)];
            r.broker.max_packet = vec![Some(24), None];
            r.payload_sizes = vec![2, 40];
            r.max_ops = if q { 7 } else { 9 };
            r.max_conns = 2;
            r.max_reqs = if q { 4 } else { 5 };
            r.dev = 0;
            v.push(r);
            // the broker's Maximum QoS below the requested one, automatic downgrade off (the crate sends what was asked
            // for): the window applies all the same
            let mut mq = Cfg::base("C06-window-with-maximum-qos-below-the-requested");
            mq.props = vec!["C06"];
            mq.ops = vec![OpK::Pub1, OpK::Pub2, OpK::Poll, OpK::DropConn];
            mq.io = IoMenu::benign();
            mq.broker.receive_max = vec![Some(1), Some(2)];
            mq.broker.max_qos = vec![Some(0), Some(1), None];
            mq.max_ops = if q { 6 } else { 8 };
            mq.max_conns = 2;
            mq.max_reqs = if q { 3 } else { 4 };
            mq.dev = 0;
            v.push(mq);
            // a transport whose write answers Ok(0) (the crate reports it and keeps the connection): the publish stays
            // queued and keeps its slot
            let mut wz = Cfg::base("C06-window-when-a-write-accepts-nothing");
            wz.props = vec!["C06"];
            wz.ops = vec![OpK::Pub1, OpK::Pub2, OpK::Poll];
            wz.io = IoMenu::benign();
            wz.io.write_zero = true;
            wz.broker.receive_max = vec![Some(1), Some(2)];
            wz.max_ops = if q { 6 } else { 7 };
            wz.max_conns = 1;
            wz.max_reqs = if q { 3 } else { 4 };
            wz.dev = 2;
            v.push(wz);
            // local limit: Receive Maximum above / at the local window of 8
            let mut b = Cfg::base("C06-receive-maximum-9-and-65535");
            b.must_reach = vec!["eight publishes unresolved at the broker", "publish refused because the send window is full"];
            b.props = vec!["C06"];
            b.ops = vec![OpK::Pub2, OpK::Pub1, OpK::Poll];
            b.io = IoMenu::benign();
            b.broker.receive_max = vec![Some(9), Some(65535), None];
            b.broker.reorder_window = 1;
            b.broker.fifo = true;
            b.max_ops = if q { 14 } else { 17 };
            b.max_conns = 1;
            b.max_reqs = if q { 10 } else { 11 };
            b.dev = 0;
            v.push(b);
            // eight exchanges waiting for PUBCOMP (the broker answers PUBREL last), then more publishes
            let mut e = Cfg::base("C06-eight-exchanges-waiting-for-pubcomp");
            e.props = vec!["C06"];
            e.must_reach = vec!["eight QoS 2 exchanges waiting for PUBCOMP", "publish refused because the send window is full"];
            e.ops = vec![OpK::Pub2, OpK::Pub1, OpK::Poll];
            e.io = IoMenu::benign();
            e.broker.receive_max = vec![None, Some(9), Some(65535), Some(8)];
            e.broker.reorder_window = 1;
            e.broker.fifo = true;
            e.broker.pubcomp_last = true;
            e.tx = 512;
            let mut opening = vec![OpK::Pub2; 8];
            opening.extend(vec![OpK::Poll; 8]);
            e.preludes = vec![opening];
            e.max_ops = if q { 21 } else { 23 };
            e.max_conns = 1;
            e.max_reqs = 11;
            e.dev = 0;
            v.push(e);
            // windows between the small ones and the local limit
            let mut d = Cfg::base("C06-receive-maximum-4-to-8");
            d.must_reach = vec!["eight publishes unresolved at the broker", "publish refused because the send window is full"];
            d.props = vec!["C06"];
            d.ops = vec![OpK::Pub1, OpK::Pub2, OpK::Poll, OpK::DropConn];
            d.io = IoMenu::benign();
            d.broker.receive_max = if q { vec![Some(4), Some(8)] } else { vec![Some(4), Some(7), Some(8)] };
            d.broker.reorder_window = 1;
            d.broker.fifo = true;
            d.tx = 512;
            d.max_ops = if q { 13 } else { 14 };
            d.max_conns = 2;
            d.max_reqs = if q { 9 } else { 10 };
            d.dev = 0;
            v.push(d);
            // the local window of eight on a resumed connection whose CONNACK says nothing (or more than eight): what is
            // still in flight from the connection before counts
            let mut lr = Cfg::base("C06-local-window-on-a-resumed-connection");
            lr.must_reach = vec!["publish refused because the send window is full"];
            lr.props = vec!["C06"];
            lr.ops = vec![OpK::Pub1, OpK::Pub2, OpK::Poll];
            lr.io = IoMenu::benign();
            lr.broker.receive_max = vec![None, Some(9), Some(65535), Some(8)];
            lr.broker.reorder_window = 1;
            lr.broker.fifo = true;
            lr.broker.pubcomp_last = true;
            lr.tx = 512;
            lr.preludes = vec![
                vec![OpK::Pub2, OpK::Pub1, OpK::Pub2, OpK::DropConn],
                vec![OpK::Pub2, OpK::Pub2, OpK::Pub2, OpK::Poll, OpK::Poll, OpK::Poll, OpK::DropConn],
                vec![OpK::Pub1, OpK::DropConn],
            ];
            lr.max_ops = if q { 14 } else { 16 };
            lr.max_conns = 2;
            lr.max_reqs = 11;
            lr.dev = 0;
            v.push(lr);
            // ... and with all eight places for exchanges waiting for PUBCOMP taken before the connection is lost
            let mut lf = Cfg::base("C06-eight-exchanges-waiting-for-pubcomp-then-resumed");
            lf.must_reach = vec!["eight QoS 2 exchanges waiting for PUBCOMP", "publish refused because the send window is full"];
            lf.props = vec!["C06"];
            lf.ops = vec![OpK::Pub2, OpK::Pub1, OpK::Poll];
            lf.io = IoMenu::benign();
            lf.broker.receive_max = vec![None, Some(9), Some(65535), Some(8)];
            lf.broker.reorder_window = 1;
            lf.broker.fifo = true;
            lf.broker.pubcomp_last = true;
            lf.tx = 512;
            let mut opening = vec![OpK::Pub2; 8];
            opening.extend(vec![OpK::Poll; 8]);
            opening.push(OpK::DropConn);
            lf.preludes = vec![opening];
            lf.max_ops = if q { 21 } else { 23 };
            lf.max_conns = 2;
            lf.max_reqs = 11;
            lf.dev = 0;
            v.push(lf);
            v
        }
        "C07" => {
            let mut v = Vec::new();
            for (i, start) in [None, Some(65534u16), Some(65535)].into_iter().enumerate() {
                let mut a = Cfg::base(match i {
                    0 => "C07-counter-comes-round-to-live-id",
                    1 => "C07-wrap-from-65534",
                    _ => "C07-wrap-from-65535",
                });
                a.props = vec!["C07"];
                a.ops = vec![OpK::Pub1, OpK::Pub2, OpK::Sub, OpK::Unsub, OpK::Poll, OpK::Age];
                a.start_pid = start;
                a.io = IoMenu::benign();
                a.io.write_pending = true;
                a.cancel = true;
                a.broker.receive_max = vec![Some(2)];
                a.max_ops = if q { 6 } else { 8 };
                a.max_conns = 1;
                a.max_reqs = if q { 4 } else { 5 };
                a.dev = if q { 0 } else { 1 };
                a.watchdog_calls = 600;
                v.push(a);
            }
            // identifiers that alias each other modulo a power of two (8 ... 32768) in flight together, then
            // the counter comes round to one of them
            let mut m = Cfg::base("C07-identifiers-aliasing-modulo-powers-of-two");
            m.props = vec!["C07"];
            m.ops = vec![OpK::Pub2, OpK::Pub1, OpK::Sub, OpK::Poll, OpK::Age];
            m.age_aliases = if q { vec![16, 32, 256] } else { vec![8, 16, 32, 64, 256, 4096, 32768] };
            m.io = IoMenu::benign();
            m.broker.reorder_window = 3;
            m.preludes = vec![
                vec![OpK::Pub2, OpK::Poll, OpK::Age, OpK::Pub2, OpK::Poll],
                vec![OpK::Pub1, OpK::Age, OpK::Pub1],
                vec![OpK::Sub, OpK::Age, OpK::Pub2, OpK::Poll],
            ];
            m.max_ops = if q { 9 } else { 10 };
            m.max_conns = 1;
            m.max_reqs = if q { 3 } else { 4 };
            m.dev = 0;
            m.watchdog_calls = 600;
            v.push(m);
            // a (non-conformant) second PUBREC with a failure code for an exchange already waiting for PUBCOMP
            // must not free its identifier
            let mut n = Cfg::base("C07-refusing-pubrec-repeated-during-release");
            n.props = vec!["C07"];
            n.ops = vec![OpK::Pub2, OpK::Pub1, OpK::Poll, OpK::Age];
            n.io = IoMenu::benign();
            n.broker.dup_pubrec_fail = true;
            n.broker.pubcomp_last = true;
            n.max_ops = if q { 6 } else { 7 };
            n.max_conns = 1;
            n.max_reqs = 3;
            n.dev = 1;
            n.watchdog_calls = 600;
            v.push(n);
            // the broker runs its own QoS 2 deliveries with the same identifiers 1 and 2 while the client's exchanges
            // with these identifiers wait for PUBCOMP; then the counter comes round
            let mut ib = Cfg::base("C07-inbound-exchanges-with-the-same-identifiers");
            ib.props = vec!["C07"];
            ib.ops = vec![OpK::Pub2, OpK::Pub1, OpK::Poll, OpK::Age];
            ib.io = IoMenu::benign();
            ib.broker.script = vec![inpub(2, 1), inpub(2, 2), inpub(1, 1)];
            ib.broker.pubcomp_last = true;
            ib.broker.reorder_window = 2;
            ib.max_ops = if q { 8 } else { 9 };
            ib.max_conns = 1;
            ib.max_reqs = 3;
            ib.dev = 0;
            ib.watchdog_calls = 600;
            v.push(ib);
            // both tables full: eight exchanges waiting for PUBCOMP and seven (then eight) unanswered SUBSCRIBEs hold
            // up to sixteen consecutive identifiers; the counter comes round to any of them
            let mut t = Cfg::base("C07-sixteen-identifiers-held-then-counter-comes-round");
            t.props = vec!["C07"];
            t.must_reach = vec!["eight QoS 2 exchanges waiting for PUBCOMP"];
            t.ops = vec![OpK::Sub, OpK::Unsub, OpK::Pub1, OpK::Poll, OpK::Age];
            t.io = IoMenu::benign();
            t.broker.fifo = true;
            t.broker.reorder_window = 1;
            t.broker.pubcomp_last = true;
            t.tx = 1024;
            let mut opening = vec![OpK::Pub2; 8];
            opening.extend(vec![OpK::Poll; 8]);
            opening.extend(vec![OpK::Sub; 7]);
            opening.push(OpK::Age);
            opening.push(OpK::Sub);
            t.preludes = vec![opening];
            t.max_ops = if q { 27 } else { 28 };
            t.max_conns = 1;
            t.max_reqs = 18;
            t.dev = 0;
            t.watchdog_calls = 900;
            v.push(t);
            // requests whose call failed or was given up after the packet had gone out (fault at the flush, at a later
            // write, cancellation): they are still awaiting their acknowledgement and keep their identifiers, also on the
            // resumed connection
            let mut ff = Cfg::base("C07-requests-whose-call-failed-keep-their-identifiers");
            ff.props = vec!["C07"];
            ff.ops = vec![OpK::Sub, OpK::Unsub, OpK::Pub1, OpK::Pub2, OpK::Poll, OpK::Age];
            ff.io = IoMenu::faults_only();
            ff.io.flush_pending = true;
            ff.io.write_pending = true;
            ff.cancel = true;
            ff.max_ops = if q { 5 } else { 6 };
            ff.max_conns = 2;
            ff.max_reqs = 3;
            ff.dev = if q { 1 } else { 2 };
            ff.watchdog_calls = 600;
            v.push(ff);
            // ... and when the transport reports the fault but stays usable
            let mut fk = Cfg::base("C07-requests-whose-call-failed-on-a-transport-that-stays-usable");
            fk.props = vec!["C07"];
            fk.ops = vec![OpK::Sub, OpK::Unsub, OpK::Pub1, OpK::Poll, OpK::Age];
            fk.io = IoMenu::faults_only();
            fk.io.err_keeps_open = true;
            fk.io.write_zero = true;
            fk.max_ops = if q { 5 } else { 6 };
            fk.max_conns = 2;
            fk.max_reqs = 3;
            fk.dev = 1;
            fk.watchdog_calls = 600;
            v.push(fk);
            v
        }
        "C11" => {
            let mut a = Cfg::base("C11-every-fault-then-every-call");
            a.props = vec!["C11"];
            a.ops = vec![
                OpK::Pub0,
                OpK::Pub1,
                OpK::Pub2,
                OpK::Sub,
                OpK::Unsub,
                OpK::Poll,
                OpK::Drive,
                OpK::Recv,
                OpK::Disconnect,
                OpK::MarkDead,
            ];
            a.io = IoMenu::faults_only();
            a.disc_illegal = true;
            a.broker.disconnect = true;
            a.broker.garbage = true;
            a.broker.script = vec![inpub(1, 3)];
            a.max_ops = if q { 5 } else { 7 };
            a.max_conns = 1;
            a.max_reqs = 4;
            a.dev = 1;
            a.drain = false;
            // keep-alive timeout as the fault
            let mut b = Cfg::base("C11-keepalive-timeout-then-every-call");
            b.must_reach = vec!["keep-alive timeout (PINGREQ unanswered)"];
            b.props = vec!["C11"];
            b.keepalive = 10;
            b.ops = a.ops.clone();
            // (time may also pass between two calls: the round-trip bound runs out while nobody polls)
            b.ops.push(OpK::Sleep);
            b.sleeps = vec![5_000];
            b.io = IoMenu::benign();
            b.broker.mute_pingresp = true;
            b.max_ops = if q { 6 } else { 7 };
            b.max_conns = 1;
            b.max_reqs = 2;
            b.dev = 0;
            b.drain = false;
            // a fault hitting work that an earlier, cancelled operation left half done (resumed write or flush)
            let mut c = Cfg::base("C11-fault-on-resumed-write-or-flush");
            c.props = vec!["C11"];
            c.ops = vec![OpK::Pub1, OpK::Sub, OpK::Poll, OpK::Drive, OpK::Disconnect];
            c.io = IoMenu::faults_only();
            c.io.write_partial = true;
            c.io.all_partials_upto = 4;
            c.io.write_pending = true;
            c.io.flush_pending = true;
            c.cancel = true;
            c.broker.script = vec![inpub(1, 3)];
            c.max_ops = if q { 5 } else { 6 };
            c.max_conns = 1;
            c.max_reqs = 2;
            c.dev = if q { 2 } else { 3 };
            c.drain = false;
            // the same with a DISCONNECT that carries properties (written from the transmit arena) and a
            // CONNECT of more than 127 bytes
            let mut d = c.clone();
            d.family = "C11-fault-or-cancellation-during-disconnect-with-properties";
            d.ops = vec![OpK::Pub1, OpK::Poll, OpK::Disconnect];
            d.big_connect = true;
            d.tx = 512;
            d.max_ops = 5;
            d.dev = 3;
            // whatever kind of error the transport reports (embedded-io knows eighteen), on whatever call
            let mut e = a.clone();
            e.family = "C11-every-kind-of-transport-error-then-every-call";
            e.fault_kinds = 18;
            e.io.err_keeps_open = true;
            e.broker.garbage = false;
            e.max_ops = if q { 4 } else { 5 };
            e.max_reqs = 3;
            vec![a, b, c, d, e]
        }
        "C12" => {
            let mut a = Cfg::base("C12-after-any-failure-or-cancellation");
            a.props = vec!["C12"];
            a.ops = vec![OpK::Pub1, OpK::Pub2, OpK::Sub, OpK::Poll, OpK::Disconnect, OpK::DropConn, OpK::Forget, OpK::IntoInner, OpK::MarkDead];
            a.io = IoMenu::full();
            a.cancel = true;
            a.broker.bad_handshake = true;
            a.broker.garbage = true;
            a.broker.disconnect = true;
            a.broker.may_lose_session = true;
            a.broker.script = vec![inpub(2, 5)];
            a.max_ops = if q { 5 } else { 6 };
            a.max_conns = if q { 2 } else { 3 };
            a.max_reqs = 2;
            a.dev = if q { 2 } else { 3 };
            // arena-filling retained payloads, tiny to roomy buffers
            let mut r = Cfg::base("C12-large-connect-after-failures");
            r.must_reach = vec!["CONNECT of more than 127 bytes"];
            r.props = vec!["C12"];
            r.ops = vec![OpK::Pub1, OpK::Pub2, OpK::Sub, OpK::Poll, OpK::Disconnect, OpK::DropConn, OpK::IntoInner];
            r.io = IoMenu::full();
            r.cancel = true;
            r.broker.bad_handshake = true;
            r.broker.script = vec![inpub(2, 5)];
            rich(&mut r);
            r.max_ops = if q { 4 } else { 5 };
            r.max_conns = if q { 2 } else { 3 };
            r.max_reqs = 2;
            r.dev = if q { 1 } else { 2 };
            // keep-alive traffic half written (or written but not flushed) when the connection is lost
            let mut ka = Cfg::base("C12-keepalive-traffic-half-written-at-connection-loss");
            ka.props = vec!["C12"];
            ka.keepalive = 10;
            ka.ops = vec![OpK::Poll, OpK::Drive, OpK::Sleep, OpK::Pub1, OpK::DropConn];
            ka.sleeps = vec![5_000];
            ka.io = IoMenu::faults_only();
            ka.io.write_partial = true;
            ka.io.all_partials_upto = 2;
            ka.io.write_pending = true;
            ka.io.flush_pending = true;
            ka.cancel = true;
            // (the session may be lost with the connection: what was queued for the old one must not linger)
            ka.broker.may_lose_session = true;
            ka.watchdog_calls = 600;
            ka.max_ops = if q { 6 } else { 7 };
            ka.max_conns = 2;
            ka.max_reqs = 1;
            ka.dev = 2;
            let mut v = vec![a, r, ka];
            // the inbound QoS 2 table exactly full (and one short of full) when the connection is lost
            let mut t = Cfg::base("C12-inbound-qos2-table-full-at-connection-loss");
            t.must_reach = vec!["inbound QoS 2 table full (8 identifiers pending)"];
            t.props = vec!["C12"];
            t.ops = vec![OpK::Recv, OpK::DropConn];
            t.io = IoMenu::benign();
            t.broker.script = (1..=8).map(|i| inpub(2, i)).collect();
            t.broker.script_burst = true;
            t.broker.fifo = true;
            t.broker.reorder_window = 1;
            t.max_ops = if q { 11 } else { 12 };
            t.max_conns = 2;
            t.max_reqs = 0;
            t.dev = 0;
            v.push(t);
            // the table of retained requests full (eight unanswered publishes or subscriptions, plenty of arena left)
            // when the connection is lost
            let mut ft = Cfg::base("C12-eight-requests-in-flight-at-connection-loss");
            ft.props = vec!["C12"];
            ft.ops = vec![OpK::Poll, OpK::Pub1, OpK::DropConn, OpK::MarkDead];
            ft.io = IoMenu::benign();
            ft.broker.fifo = true;
            ft.broker.reorder_window = 1;
            ft.broker.bad_handshake = true;
            ft.tx = 1024;
            ft.preludes = vec![
                vec![OpK::Pub1; 8],
                vec![OpK::Sub, OpK::Sub, OpK::Sub, OpK::Sub, OpK::Unsub, OpK::Unsub, OpK::Pub2, OpK::Pub1],
            ];
            ft.max_ops = if q { 11 } else { 12 };
            ft.max_conns = 3;
            ft.max_reqs = 9;
            ft.dev = 1;
            v.push(ft);
            for (tx, pay) in [(96usize, 80usize), (64, 40), (48, 30)] {
                if q && tx != 96 {
                    continue;
                }
                let mut b = Cfg::base(match tx {
                    96 => "C12-arena-nearly-full-96",
                    64 => "C12-arena-nearly-full-64",
                    _ => "C12-arena-nearly-full-48",
                });
                b.props = vec!["C12"];
                b.tx = tx;
                b.payload_sizes = vec![pay, 2];
                b.ops = vec![OpK::Pub1, OpK::Poll, OpK::DropConn];
                b.io = IoMenu::faults_only();
                b.max_ops = 5;
                b.max_conns = 2;
                b.max_reqs = 2;
                b.dev = 1;
                v.push(b);
            }
            v
        }
        "C13" => {
            let mut a = Cfg::base("C13-cancel-at-every-await-point");
            a.must_reach = vec!["operation cancelled with a packet half written"];
            a.props = vec!["C13"];
            a.twin = Some(Twin::Cancel);
            a.drain_script = true;
            a.prune = false;
            a.cancel = true;
            a.cancel_connect = false;
            a.ops = vec![OpK::Pub1, OpK::Pub2, OpK::Sub, OpK::Unsub, OpK::Poll, OpK::Recv, OpK::Drive];
            a.io = IoMenu::partial();
            a.io.all_partials_upto = if q { 6 } else { 16 };
            a.broker.script = vec![inpub(1, 11), inpub(2, 12)];
            a.broker.reorder_window = 1;
            a.broker.fifo = true;
            a.max_ops = if q { 4 } else { 5 };
            a.max_conns = 1;
            a.max_reqs = 3;
            a.dev = 2;
            // two successive cancellations, fewer operation kinds
            let mut b = Cfg::base("C13-successive-cancellations");
            b.props = vec!["C13"];
            b.twin = Some(Twin::Cancel);
            b.drain_script = true;
            b.prune = false;
            b.cancel = true;
            b.cancel_connect = false;
            b.ops = vec![OpK::Pub1, OpK::Pub2, OpK::Sub, OpK::Poll];
            b.io = IoMenu::benign();
            b.io.write_pending = true;
            b.io.flush_pending = true;
            b.io.read_pending = true;
            b.broker.script = vec![inpub(2, 12)];
            b.broker.reorder_window = 1;
            b.broker.fifo = true;
            b.max_ops = if q { 5 } else { 6 };
            b.max_conns = 1;
            b.max_reqs = 3;
            b.dev = if q { 2 } else { 3 };
            // disconnect() is documented as cancel-safe as well: cancel it (and only it) at every await point
            let mut c = Cfg::base("C13-cancelled-disconnect");
            c.props = vec!["C13"];
            c.twin = Some(Twin::Cancel);
            c.drain_script = true;
            c.prune = false;
            c.cancel = true;
            c.cancel_connect = false;
            c.cancel_only = Some(vec![OpK::Disconnect]);
            c.big_connect = true;
            c.tx = 512;
            c.ops = vec![OpK::Pub1, OpK::Poll, OpK::Disconnect];
            c.io = IoMenu::partial();
            c.broker.reorder_window = 1;
            c.broker.fifo = true;
            c.max_ops = 4;
            c.max_conns = 1;
            c.max_reqs = 2;
            c.dev = 2;
            // buffering transport (bytes reach the broker at flush): a packet whose flush was interrupted must
            // still get out
            let mut d = Cfg::base("C13-cancel-on-buffering-transport");
            d.props = vec!["C13"];
            d.twin = Some(Twin::Cancel);
            d.drain_script = true;
            d.prune = false;
            d.cancel = true;
            d.cancel_connect = false;
            d.ops = vec![OpK::Pub1, OpK::Pub2, OpK::Sub, OpK::Poll, OpK::Drive];
            d.io = IoMenu::benign();
            d.io.write_pending = true;
            d.io.flush_pending = true;
            d.io.read_pending = true;
            d.io.deliver_on_flush = true;
            d.broker.script = vec![inpub(1, 11), inpub(2, 12)];
            d.broker.reorder_window = 1;
            d.broker.fifo = true;
            d.max_ops = if q { 4 } else { 5 };
            d.max_conns = 1;
            d.max_reqs = 3;
            d.dev = 2;
            let mut e = Cfg::base("C13-rich-packets-large-connect");
            e.must_reach = vec!["outbound packet with a two-byte remaining length written in pieces", "CONNECT of more than 127 bytes", "operation cancelled with a packet half written"];
            e.props = vec!["C13"];
            e.twin = Some(Twin::Cancel);
            e.drain_script = true;
            e.prune = false;
            e.cancel = true;
            e.cancel_connect = false;
            e.ops = vec![OpK::Pub1, OpK::Pub2, OpK::Sub, OpK::Unsub, OpK::Poll];
            e.io = IoMenu::partial();
            rich(&mut e);
            e.broker.reorder_window = 1;
            e.broker.fifo = true;
            e.max_ops = if q { 3 } else { 4 };
            e.max_conns = 1;
            e.max_reqs = 2;
            e.dev = 2;
            // cancellation at every read inside an inbound packet with a two-byte remaining length
            let mut f = Cfg::base("C13-cancel-inside-large-inbound-packet");
            f.must_reach = vec!["inbound packet with a two-byte remaining length read in pieces", "operation cancelled between the bytes of an inbound fixed header"];
            f.props = vec!["C13"];
            f.twin = Some(Twin::Cancel);
            f.drain_script = true;
            f.prune = false;
            f.cancel = true;
            f.cancel_connect = false;
            f.rx = 512;
            f.ops = vec![OpK::Poll, OpK::Recv, OpK::Drive];
            f.io = IoMenu::benign();
            f.io.read_pending = true;
            f.io.read_partial = true;
            f.io.all_partials_upto = 2;
            f.broker.script = vec![inpub_big(0, 0), inpub(1, 11), inpub_big(2, 12)];
            f.broker.reorder_window = 1;
            f.broker.fifo = true;
            f.max_ops = if q { 4 } else { 5 };
            f.max_conns = 1;
            f.max_reqs = 0;
            f.dev = if q { 2 } else { 3 };
            // a poll() dropped in the middle of an inbound packet, then a disconnect (plain or with properties) dropped
            // before any of it was written, then the connection is driven on: the inbound packet must arrive intact
            let mut h = Cfg::base("C13-cancelled-disconnect-with-an-inbound-packet-half-read");
            h.props = vec!["C13"];
            h.twin = Some(Twin::Cancel);
            h.drain_script = true;
            h.prune = false;
            h.cancel = true;
            h.cancel_connect = false;
            h.big_connect = true;
            h.rx = 512;
            h.tx = 512;
            h.disconnect_dropped_unwritten = true;
            h.ops = vec![OpK::Poll, OpK::Disconnect];
            h.io = IoMenu::benign();
            h.io.read_pending = true;
            h.io.read_partial = true;
            h.io.all_partials_upto = 2;
            h.io.write_pending = true;
            h.broker.script = vec![inpub_big(1, 11)];
            h.broker.reorder_window = 1;
            h.broker.fifo = true;
            h.max_ops = 4;
            h.max_conns = 1;
            h.max_reqs = 0;
            h.dev = 3;
            // cancellation at every await point of the keep-alive traffic; the broker never answers, the
            // application polls on until the handle is dead
            let mut g = Cfg::base("C13-cancel-during-keepalive-traffic");
            g.props = vec!["C13"];
            g.twin = Some(Twin::Cancel);
            g.prune = false;
            g.cancel = true;
            g.cancel_connect = false;
            g.keepalive = 10;
            // (no requests: with a silent broker an uncancelled poll only ever ends with the handle dead)
            g.ops = vec![OpK::Poll, OpK::Drive, OpK::Sleep];
            g.sleeps = vec![5_000];
            g.io = IoMenu::benign();
            g.io.write_pending = true;
            g.io.flush_pending = true;
            g.broker.mute_pingresp = true;
            g.broker.reorder_window = 1;
            g.broker.fifo = true;
            g.drain = false;
            g.drain_until_dead = true;
            g.max_ops = if q { 4 } else { 5 };
            g.max_conns = 1;
            g.max_reqs = 1;
            g.dev = 2;
            // a keep-alive probe left half written by a dropped poll(), then disconnect() (or any other call)
            let mut kp = Cfg::base("C13-keepalive-probe-half-written-then-disconnect");
            kp.props = vec!["C13"];
            kp.twin = Some(Twin::Cancel);
            kp.drain_script = true;
            kp.prune = false;
            kp.cancel = true;
            kp.cancel_connect = false;
            kp.cancel_only = Some(vec![OpK::Poll]);
            kp.keepalive = 10;
            kp.no_cancel_while_idle = true;
            kp.ops = vec![OpK::Poll, OpK::Disconnect, OpK::Pub1];
            kp.io = IoMenu::benign();
            kp.io.write_partial = true;
            kp.io.write_pending = true;
            kp.io.all_partials_upto = 4;
            kp.broker.reorder_window = 1;
            kp.broker.fifo = true;
            kp.max_ops = if q { 4 } else { 5 };
            kp.max_conns = 1;
            kp.max_reqs = 1;
            kp.dev = 2;
            vec![a, b, c, d, e, f, g, h, kp]
        }
        "C15" => {
            let mut a = Cfg::base("C15-partial-and-pending-transport-answers");
            a.props = vec!["C15"];
            a.twin = Some(Twin::Fragment);
            a.drain_script = true;
            a.prune = false;
            a.ops = vec![OpK::Pub0, OpK::Pub1, OpK::Pub2, OpK::Sub, OpK::Poll, OpK::DropConn];
            a.io = IoMenu::partial();
            a.broker.script = vec![inpub(1, 11), inpub(2, 12)];
            a.broker.reorder_window = 1;
            a.broker.fifo = true;
            a.max_ops = if q { 4 } else { 5 };
            a.max_conns = 2;
            a.max_reqs = 3;
            a.dev = if q { 2 } else { 3 };
            // every chunking of a short inbound stream: each read may return any shorter prefix
            let mut b = Cfg::base("C15-all-chunkings-of-inbound-stream");
            b.props = vec!["C15"];
            b.twin = Some(Twin::Fragment);
            b.drain_script = true;
            b.prune = false;
            b.ops = vec![OpK::Poll];
            b.io = IoMenu::benign();
            b.io.read_partial = true;
            b.io.all_partials_upto = 32;
            b.broker.script = if q { vec![inpub(1, 11), inpub(0, 0)] } else { vec![inpub(1, 11), inpub(2, 12), inpub(0, 0)] };
            // the same stream sitting in the transport all at once, with a zero-length packet in front
            let mut c = b.clone();
            c.family = "C15-all-chunkings-of-back-to-back-packets";
            c.broker.script = if q { vec![inpub(9, 0), inpub(1, 11)] } else { vec![inpub(0, 0), inpub(9, 0), inpub(1, 11), inpub(9, 0)] };
            c.broker.script_burst = true;
            b.broker.reorder_window = 1;
            b.broker.fifo = true;
            b.max_ops = if q { 3 } else { 4 };
            b.max_conns = 1;
            b.max_reqs = 0;
            b.dev = 40;
            c.max_ops = b.max_ops;
            c.max_reqs = 0;
            c.dev = 40;
            // keep-alive traffic under partial writes
            let mut d = Cfg::base("C15-keepalive-traffic-under-partial-writes");
            d.props = vec!["C15"];
            d.twin = Some(Twin::Fragment);
            d.drain_script = true;
            d.prune = false;
            d.keepalive = 10;
            d.ops = vec![OpK::Pub1, OpK::Poll, OpK::Drive, OpK::Sleep];
            d.sleeps = vec![5_000];
            d.io = IoMenu::partial();
            d.broker.reorder_window = 1;
            d.broker.fifo = true;
            d.max_ops = if q { 4 } else { 5 };
            d.max_conns = 1;
            d.max_reqs = 2;
            d.dev = 2;
            let mut e = Cfg::base("C15-rich-packets-large-connect");
            e.must_reach = vec!["outbound packet with a two-byte remaining length written in pieces", "CONNECT of more than 127 bytes"];
            e.props = vec!["C15"];
            e.twin = Some(Twin::Fragment);
            e.drain_script = true;
            e.prune = false;
            e.ops = vec![OpK::Pub0, OpK::Pub1, OpK::Pub2, OpK::Sub, OpK::Unsub, OpK::Poll, OpK::DropConn, OpK::Disconnect];
            e.io = IoMenu::partial();
            rich(&mut e);
            e.broker.reorder_window = 1;
            e.broker.fifo = true;
            e.max_ops = if q { 3 } else { 4 };
            e.max_conns = 2;
            e.max_reqs = 2;
            e.dev = 2;
            // inbound packets with a two-byte remaining length, keep-alive timers running
            let mut f = Cfg::base("C15-large-inbound-packets-with-keepalive");
            f.must_reach = vec!["inbound packet with a two-byte remaining length read in pieces"];
            f.props = vec!["C15"];
            f.twin = Some(Twin::Fragment);
            f.drain_script = true;
            f.prune = false;
            f.keepalive = 10;
            f.rx = 512;
            f.ops = vec![OpK::Poll, OpK::Recv, OpK::Sleep];
            f.sleeps = vec![5_000];
            f.io = IoMenu::benign();
            f.io.read_pending = true;
            f.io.read_partial = true;
            f.io.all_partials_upto = 2;
            f.broker.script = vec![inpub_big(0, 0), inpub(1, 11), inpub_big(2, 12)];
            f.broker.reorder_window = 1;
            f.broker.fifo = true;
            f.max_ops = 4;
            f.max_conns = 1;
            f.max_reqs = 0;
            f.dev = if q { 2 } else { 3 };
            let mut g = Cfg::base("C15-packet-larger-than-64KiB");
            g.must_reach = vec!["outbound packet of more than 65535 bytes accepted in pieces"];
            g.props = vec!["C15"];
            g.twin = Some(Twin::Fragment);
            g.drain_script = true;
            g.prune = false;
            g.tx = 80_000;
            g.payload_sizes = vec![70_000];
            g.ops = vec![OpK::Pub1, OpK::Poll];
            g.io = IoMenu::partial();
            g.io.all_partials_upto = 0;
            g.io.read_partial = false;
            g.io.read_pending = false;
            g.broker.reorder_window = 1;
            g.broker.fifo = true;
            g.max_ops = 3;
            g.max_conns = 1;
            g.max_reqs = 1;
            g.dev = if q { 2 } else { 3 };
            let mut h = g.clone();
            h.family = "C15-packet-larger-than-64KiB-16KiB-writes";
            h.io.max_write = 16_384;
            h.watchdog_calls = 400;
            h.dev = 1;
            // an operation dropped at a pending write that follows a partial write of the same packet, against
            // the same program with that write pending straight away
            let mut k = Cfg::base("C15-dropped-at-a-pending-write-after-a-partial-one");
            k.props = vec!["C15"];
            k.twin = Some(Twin::DropAtWrite);
            k.drain_script = true;
            k.prune = false;
            k.cancel = true;
            k.cancel_connect = false;
            k.ops = vec![OpK::Pub1, OpK::Pub2, OpK::Sub, OpK::Poll, OpK::Drive];
            k.io = IoMenu::benign();
            k.io.write_partial = true;
            k.io.all_partials_upto = if q { 6 } else { 16 };
            k.io.write_pending = true;
            k.broker.script = vec![inpub(1, 11)];
            k.broker.reorder_window = 1;
            k.broker.fifo = true;
            k.max_ops = if q { 4 } else { 5 };
            k.max_conns = 1;
            k.max_reqs = 2;
            k.dev = 2;
            vec![a, b, c, d, e, f, g, h, k]
        }
        "C16" => {
            let mut a = Cfg::base("C16-progress-after-partials-cancels-faults");
            a.props = vec!["C16"];
            a.ops = vec![OpK::Pub1, OpK::Pub2, OpK::Sub, OpK::Unsub, OpK::Poll, OpK::Drive, OpK::DropConn];
            a.io = IoMenu::full();
            a.cancel = true;
            a.broker.script = vec![inpub(1, 21), inpub(2, 22)];
            a.broker.may_lose_session = true;
            a.max_ops = if q { 6 } else { 7 };
            a.max_conns = if q { 2 } else { 3 };
            a.max_reqs = 3;
            a.dev = if q { 1 } else { 2 };
            // the broker lowers its Receive Maximum below what is in flight when the session is resumed: everything
            // accepted must still complete
            let mut rl = Cfg::base("C16-receive-maximum-lowered-on-resume");
            rl.props = vec!["C16"];
            rl.ops = vec![OpK::Pub1, OpK::Pub2, OpK::Poll, OpK::DropConn];
            rl.io = IoMenu::benign();
            rl.broker.receive_max = vec![Some(3), Some(2), Some(1)];
            rl.max_ops = if q { 7 } else { 9 };
            rl.max_conns = if q { 2 } else { 3 };
            rl.max_reqs = if q { 3 } else { 4 };
            rl.dev = 0;
            // an inbound publish is handed over, the application stays away while the keep-alive probe falls due, then
            // calls again: the owed acknowledgement and the probe go through the same queue
            let mut ap = Cfg::base("C16-owed-acknowledgement-and-keepalive-probe-together");
            ap.props = vec!["C16"];
            ap.keepalive = 4;
            ap.ops = vec![OpK::Poll, OpK::Pub1, OpK::Sleep];
            ap.sleeps = vec![2_500];
            ap.io = IoMenu::benign();
            ap.broker.script = vec![inpub(1, 21), inpub(2, 22)];
            ap.max_ops = if q { 5 } else { 6 };
            ap.max_conns = 1;
            ap.max_reqs = 1;
            ap.dev = 0;
            // inbound publishes exactly as long as the receive buffer (the Maximum Packet Size the client advertised)
            let mut ex = Cfg::base("C16-inbound-publish-exactly-the-size-of-the-receive-buffer");
            ex.props = vec!["C16"];
            ex.rx = 11;
            ex.ops = vec![OpK::Poll, OpK::Recv, OpK::Pub1, OpK::DropConn];
            ex.io = IoMenu::benign();
            ex.io.read_partial = true;
            ex.broker.script = vec![inpub(1, 21), inpub(2, 22), inpub(0, 0)];
            ex.max_ops = if q { 6 } else { 7 };
            ex.max_conns = 2;
            ex.max_reqs = 1;
            ex.dev = 1;
            let mut b = Cfg::base("C16-handshake-failures");
            b.props = vec!["C16"];
            b.ops = vec![OpK::Pub1, OpK::Pub2, OpK::Sub, OpK::Poll, OpK::DropConn];
            b.io = IoMenu::faults_only();
            b.cancel = true;
            b.io.read_pending = true;
            b.broker.bad_handshake = true;
            b.broker.ack_fail = true;
            b.max_ops = if q { 6 } else { 7 };
            b.max_conns = 3;
            b.max_reqs = 3;
            b.dev = if q { 1 } else { 2 };
            // robustness: write answering Ok(0)
            let mut c = Cfg::base("C16-write-zero");
            c.props = vec!["C16"];
            c.ops = vec![OpK::Pub1, OpK::Pub0, OpK::Poll];
            c.io = IoMenu::benign();
            c.io.write_zero = true;
            c.max_ops = 5;
            c.max_conns = 2;
            c.max_reqs = 2;
            c.dev = 2;
            // ... and a transport that goes on refusing for as long as the call lasts: every call makes one attempt
            // and returns, whatever it was doing (an owed acknowledgement inside recv() included)
            let mut cz = Cfg::base("C16-transport-refuses-writes-for-a-whole-call");
            cz.props = vec!["C16"];
            cz.ops = vec![OpK::Pub1, OpK::Sub, OpK::Poll, OpK::Recv, OpK::Drive, OpK::Disconnect];
            cz.io = IoMenu::benign();
            cz.io.write_zero = true;
            cz.io.write_zero_sticky = true;
            cz.io.write_partial = true;
            cz.broker.script = vec![inpub(1, 5), inpub(2, 6)];
            cz.watchdog_calls = 300;
            cz.max_ops = if q { 5 } else { 6 };
            cz.max_conns = 2;
            cz.max_reqs = 2;
            cz.dev = 2;
            // a publish kept for replay that no longer fits the Maximum Packet Size of a later connection: every call
            // reports it and returns (the application has to find a broker that allows it)
            let mut cp = Cfg::base("C16-retained-publish-exceeds-a-later-maximum-packet-size");
            cp.props = vec!["C16"];
            cp.ops = vec![OpK::Pub1, OpK::Poll, OpK::Recv, OpK::Drive, OpK::DropConn];
            cp.io = IoMenu::benign();
            cp.broker.max_packet = vec![None, Some(20)];
            cp.payload_sizes = vec![2, 40];
            cp.max_ops = if q { 5 } else { 6 };
            cp.max_conns = 3;
            cp.max_reqs = 2;
            cp.dev = 0;
            // buffering transport: every interrupted flush must be resumed
            let mut d = Cfg::base("C16-buffering-transport");
            d.props = vec!["C16"];
            d.ops = vec![OpK::Pub1, OpK::Pub2, OpK::Sub, OpK::Poll, OpK::Drive, OpK::DropConn];
            d.io = IoMenu::benign();
            d.io.write_pending = true;
            d.io.flush_pending = true;
            d.io.read_pending = true;
            d.io.deliver_on_flush = true;
            d.cancel = true;
            d.broker.script = vec![inpub(1, 21), inpub(2, 22)];
            d.max_ops = if q { 5 } else { 6 };
            d.max_conns = 2;
            d.max_reqs = 3;
            d.dev = if q { 2 } else { 3 };
            // partial writes with no inbound traffic that could tear the stream and force a reconnect:
            // whatever was half written must be finished by the session itself
            let mut e = Cfg::base("C16-partial-writes-quiet-broker");
            e.props = vec!["C16"];
            e.ops = vec![OpK::Pub1, OpK::Pub2, OpK::Sub, OpK::Unsub, OpK::Poll, OpK::Drive];
            e.io = IoMenu::partial();
            e.cancel = true;
            e.max_ops = if q { 5 } else { 6 };
            e.max_conns = 1;
            e.max_reqs = 3;
            e.dev = 2;
            let mut f = Cfg::base("C16-rich-packets-large-connect");
            f.must_reach = vec!["outbound packet with a two-byte remaining length written in pieces", "CONNECT of more than 127 bytes"];
            f.props = vec!["C16"];
            f.ops = vec![OpK::Pub1, OpK::Pub2, OpK::Sub, OpK::Unsub, OpK::Poll, OpK::DropConn];
            f.io = IoMenu::full();
            f.cancel = true;
            rich(&mut f);
            f.max_ops = if q { 5 } else { 6 };
            f.max_conns = 2;
            f.max_reqs = if q { 2 } else { 3 };
            f.dev = if q { 1 } else { 2 };
            // all eight in-flight slots taken by a mix of request kinds, acknowledged within a window, resumed
            let mut g = Cfg::base("C16-eight-requests-in-flight");
            g.must_reach = vec!["eight publishes unresolved at the broker", "nine or more requests live (publishes + subscribe/unsubscribe)"];
            g.props = vec!["C16"];
            g.ops = vec![OpK::Pub1, OpK::Pub2, OpK::Sub, OpK::Poll, OpK::DropConn];
            g.io = IoMenu::benign();
            g.broker.reorder_window = 2;
            g.tx = 512;
            g.preludes = vec![
                vec![OpK::Sub, OpK::Pub1, OpK::Pub2, OpK::Unsub, OpK::Pub2, OpK::Pub1, OpK::Pub2, OpK::Sub],
                vec![OpK::Pub2; 8],
            ];
            g.max_ops = if q { 14 } else { 16 };
            g.max_conns = 2;
            g.max_reqs = 10;
            g.dev = 0;
            let mut h = Cfg::base("C16-packet-larger-than-64KiB");
            h.must_reach = vec!["outbound packet of more than 65535 bytes accepted in pieces"];
            h.props = vec!["C16"];
            h.tx = 80_000;
            h.payload_sizes = vec![70_000];
            h.ops = vec![OpK::Pub1, OpK::Pub2, OpK::Poll, OpK::DropConn];
            h.io = IoMenu::partial();
            h.io.all_partials_upto = 0;
            h.io.read_partial = false;
            h.io.read_pending = false;
            h.cancel = true;
            h.max_ops = 4;
            h.max_conns = 2;
            h.max_reqs = 1;
            h.dev = if q { 2 } else { 3 };
            // the same packet over a transport that never takes more than 16 KiB (resp. one MSS) per write
            let mut i = h.clone();
            i.family = "C16-packet-larger-than-64KiB-16KiB-writes";
            i.io.max_write = 16_384;
            i.watchdog_calls = 400;
            i.dev = 1;
            let mut j = i.clone();
            j.family = "C16-packet-larger-than-64KiB-1460-byte-writes";
            j.io.max_write = 1_460;
            j.io.write_partial = false;
            // short keep-alives (configured or set by the broker) with a broker that answers every PINGREQ
            let mut sk = Cfg::base("C16-short-keepalive-responsive-broker");
            sk.props = vec!["C16"];
            sk.keepalive = 4;
            sk.ops = vec![OpK::Pub1, OpK::Poll, OpK::Sleep, OpK::DropConn];
            sk.sleeps = vec![1_000];
            sk.io = IoMenu::benign();
            sk.broker.server_keepalive = vec![None, Some(2), Some(5), Some(9)];
            sk.max_ops = if q { 6 } else { 7 };
            sk.max_conns = 2;
            sk.max_reqs = 1;
            sk.dev = 0;
            vec![a, b, c, cz, cp, d, e, f, g, h, i, j, sk, rl, ex, ap]
        }
        "C18" => {
            let mut a = Cfg::base("C18-status-after-every-step");
            a.props = vec!["C18"];
            a.ops = vec![OpK::Pub1, OpK::Pub2, OpK::Sub, OpK::Unsub, OpK::Poll, OpK::DropConn];
            a.io = IoMenu::faults_only();
            a.io.write_pending = true;
            a.cancel = true;
            a.broker.ack_fail = true;
            a.broker.may_lose_session = true;
            a.max_ops = if q { 7 } else { 9 };
            a.max_conns = if q { 2 } else { 3 };
            a.max_reqs = 3;
            a.dev = if q { 1 } else { 2 };
            // rejected / garbled / protocol-illegal handshakes between the connections
            let mut b = Cfg::base("C18-status-across-failed-handshakes");
            b.props = vec!["C18"];
            b.ops = vec![OpK::Pub1, OpK::Pub2, OpK::Sub, OpK::Poll, OpK::DropConn];
            b.io = IoMenu::benign();
            b.broker.bad_handshake = true;
            b.broker.may_lose_session = true;
            b.max_ops = if q { 7 } else { 8 };
            b.max_conns = if q { 3 } else { 4 };
            b.max_reqs = 2;
            b.dev = if q { 1 } else { 2 };
            // identifiers straddling the 16-bit wrap
            let mut c = Cfg::base("C18-status-across-identifier-wrap");
            c.props = vec!["C18"];
            c.start_pid = Some(65534);
            c.ops = vec![OpK::Pub1, OpK::Pub2, OpK::Sub, OpK::Poll];
            c.pub_retain = vec![false, true];
            c.broker.ack_fail = true;
            c.io = IoMenu::benign();
            c.max_ops = if q { 8 } else { 9 };
            c.max_conns = 1;
            c.max_reqs = 4;
            c.dev = 0;
            let mut d = Cfg::base("C18-status-with-eight-requests-in-flight");
            d.must_reach = vec!["eight publishes unresolved at the broker", "fresh broker session while requests were in flight"];
            d.props = vec!["C18"];
            d.ops = vec![OpK::Pub1, OpK::Pub2, OpK::Sub, OpK::Poll, OpK::DropConn];
            d.io = IoMenu::benign();
            d.broker.reorder_window = 2;
            d.broker.ack_fail = true;
            d.broker.may_lose_session = true;
            d.tx = 512;
            d.preludes = vec![
                vec![OpK::Sub, OpK::Pub1, OpK::Pub2, OpK::Unsub, OpK::Pub2, OpK::Pub1, OpK::Pub2, OpK::Sub],
                vec![OpK::Pub2; 8],
            ];
            d.max_ops = if q { 13 } else { 15 };
            d.max_conns = 2;
            d.max_reqs = 10;
            d.dev = 0;
            // a broker that acknowledges a waiting identifier with the wrong kind of packet
            let mut f = Cfg::base("C18-acknowledgement-of-the-wrong-kind");
            f.props = vec!["C18", "C06"];
            f.ops = vec![OpK::Pub1, OpK::Pub2, OpK::Sub, OpK::Unsub, OpK::Poll];
            f.io = IoMenu::benign();
            f.broker.wrong_kind_acks = true;
            f.broker.receive_max = vec![Some(2)];
            f.max_ops = if q { 6 } else { 7 };
            f.max_conns = 1;
            f.max_reqs = 3;
            f.dev = 1;
            // SUBACK / UNSUBACK with one reason code per filter: any refused filter is a rejection
            let mut e = Cfg::base("C18-per-filter-reason-codes");
            e.must_reach = vec!["SUBACK/UNSUBACK mixing refused and granted filters"];
            e.props = vec!["C18"];
            e.ops = vec![OpK::Sub, OpK::Unsub, OpK::Poll, OpK::DropConn];
            e.io = IoMenu::benign();
            e.sub_counts = vec![2, 3, 1, 9, 17];
            e.tx = 4096;
            e.broker.ack_fail = true;
            e.max_ops = if q { 6 } else { 8 };
            e.max_conns = 2;
            e.max_reqs = 3;
            e.dev = 0;
            // tiny Maximum Packet Size values that change between connections (the shortest PUBLISH there is just fits 8)
            let mut g = Cfg::base("C18-status-under-tiny-maximum-packet-size");
            g.props = vec!["C18"];
            g.ops = vec![OpK::Pub2, OpK::Pub1, OpK::Poll, OpK::DropConn];
            g.io = IoMenu::benign();
            g.broker.max_packet = vec![None, Some(5), Some(8), Some(64)];
            g.payload_sizes = vec![0, 2];
            g.max_ops = if q { 7 } else { 9 };
            g.max_conns = if q { 3 } else { 4 };
            g.max_reqs = 2;
            g.dev = 0;
            // the identifier counter has come round exactly to its initial value when a fresh session begins
            let mut w = Cfg::base("C18-fresh-session-after-the-identifier-counter-wrapped");
            w.props = vec!["C18"];
            w.ops = vec![OpK::Pub1, OpK::Sub, OpK::Poll, OpK::Age, OpK::DropConn];
            w.io = IoMenu::benign();
            w.broker.may_lose_session = true;
            w.age_targets = vec![1, 2, 65535];
            w.max_ops = if q { 7 } else { 8 };
            w.max_conns = if q { 2 } else { 3 };
            w.max_reqs = 2;
            w.dev = 0;
            w.watchdog_calls = 600;
            vec![a, b, c, d, e, f, g, w]
        }
        _ => vec![],
    }
}

/// Outside the small world: long topics, properties, payloads needing a two-byte remaining length,
/// several filters per SUBSCRIBE, a CONNECT of more than 128 bytes (will with properties, credentials).
fn rich(c: &mut Cfg) {
    c.tx = 1024;
    c.payload_sizes = vec![2, 130];
    c.pub_shapes = vec![0, 1, 2];
    c.sub_counts = vec![1, 3, 9];
    c.big_connect = true;
    c.io.all_partials_upto = 4;
    c.payload_kinds = vec![0, 1];
}

/// An inbound publish with the RETAIN flag, a longer topic and several properties.
pub fn inpub_rich(qos: u8, pid: u16) -> InPub {
    use crate::mqtt_ref::{PVal, Prop};
    InPub {
        qos,
        pid,
        retain: true,
        topic: "in/\u{e9}",
        payload: vec![0xC0 | qos, pid as u8, 0, 255],
        props: vec![
            Prop { id: 0x26, val: PVal::Pair(b"k".to_vec(), b"v".to_vec()) },
            Prop { id: 0x0B, val: PVal::Var(300) },
            Prop { id: 0x08, val: PVal::Str(b"r/t".to_vec()) },
            Prop { id: 0x26, val: PVal::Pair(b"k".to_vec(), b"w".to_vec()) },
            // variable byte integers with an all-zero middle group and at the 28-bit maximum
            Prop { id: 0x0B, val: PVal::Var(16384) },
            Prop { id: 0x0B, val: PVal::Var(268_435_455) },
        ],
    }
}

/// An inbound publish whose remaining length needs two bytes.
pub fn inpub_big(qos: u8, pid: u16) -> InPub {
    InPub {
        qos,
        pid,
        retain: false,
        topic: "in",
        payload: vec![0xA0 | qos; 200],
        props: vec![],
    }
}

pub fn inpub(qos: u8, pid: u16) -> InPub {
    InPub {
        qos,
        pid,
        retain: false,
        topic: "in",
        payload: vec![0xB0 | qos, pid as u8],
        props: vec![],
    }
}

/// Direct enumerations (input-space properties).
pub fn direct(prop: &str, tier: Tier, caps: &crate::explore::Caps) -> Result<Vec<crate::report::FamilyReport>, String> {
    Ok(match prop {
        "C08" => crate::direct::c08(tier, caps),
        _ => crate::direct2::direct(prop, tier, caps),
    })
}

pub fn replay_direct(v: &serde_json::Value) -> i32 {
    crate::direct::replay_case(v)
}
