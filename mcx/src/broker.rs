//! Model of what a conformant MQTT 5 broker may send, and of the state it keeps.
#![allow(dead_code)]

use crate::cfg::{BrokerCfg, InPub};
use crate::mqtt_ref::{AckKind, CPacket, PVal, Prop, SPacket};
use std::collections::BTreeSet;
use std::hash::{Hash, Hasher};

#[derive(Clone, Debug, PartialEq, Eq, Hash)]
pub enum Owed {
    ConnAck { clean_start: bool },
    Ack { kind: AckKind, pid: u16, reason: u8 },
    SubAck { pid: u16, n: usize },
    UnsubAck { pid: u16, n: usize },
    PingResp,
    /// retransmission of an unacknowledged broker->client publish / PUBREL after a resumed CONNACK
    Resend(SPacket),
}

#[derive(Clone, Debug, PartialEq, Eq, Hash)]
pub struct B2c {
    pub msg: InPub,
    /// PUBREC received, PUBREL sent, waiting for PUBCOMP
    pub released: bool,
}

#[derive(Clone, Debug)]
pub struct Broker {
    pub cfg: BrokerCfg,
    pub keeps_sessions: bool,
    pub has_session: bool,
    pub c2b_qos2: BTreeSet<u16>,
    pub b2c: Vec<B2c>,
    pub script_next: usize,
    pub connected: bool,
    pub conn_closed: bool,
    pub owed: Vec<Owed>,
    pub pings_unanswered: u32,
}

/// One thing the broker could do now.
#[derive(Clone, Debug, PartialEq, Eq)]
pub enum Emit {
    Owed(usize),
    Script,
    /// same-connection DUP retransmission of an unacknowledged publish (non-default)
    DupRetransmit(usize),
}

impl Broker {
    pub fn new(cfg: BrokerCfg, keeps_sessions: bool) -> Self {
        Broker {
            cfg,
            keeps_sessions,
            has_session: false,
            c2b_qos2: BTreeSet::new(),
            b2c: Vec::new(),
            script_next: 0,
            connected: false,
            conn_closed: true,
            owed: Vec::new(),
            pings_unanswered: 0,
        }
    }

    pub fn digest<H: Hasher>(&self, h: &mut H) {
        self.has_session.hash(h);
        self.c2b_qos2.hash(h);
        self.b2c.hash(h);
        self.script_next.hash(h);
        self.connected.hash(h);
        self.conn_closed.hash(h);
        self.owed.hash(h);
        self.pings_unanswered.hash(h);
    }

    pub fn conn_open(&mut self) {
        self.connected = false;
        self.conn_closed = false;
        self.owed.clear();
        self.pings_unanswered = 0;
    }

    pub fn conn_close(&mut self) {
        self.connected = false;
        self.conn_closed = true;
        self.owed.clear();
        if !self.keeps_sessions {
            self.has_session = false;
            self.c2b_qos2.clear();
            self.b2c.clear();
        }
    }

    /// The broker has completely received `pkt` on the current connection.
    pub fn on_client_packet(&mut self, pkt: &CPacket) {
        if self.conn_closed {
            return;
        }
        match pkt {
            CPacket::Connect(c) => {
                if !self.connected && !self.owed.iter().any(|o| matches!(o, Owed::ConnAck { .. })) {
                    self.owed.push(Owed::ConnAck {
                        clean_start: c.clean_start,
                    });
                }
            }
            _ if !self.connected => {}
            CPacket::Publish(p) => match p.qos {
                1 => self.owed.push(Owed::Ack {
                    kind: AckKind::PubAck,
                    pid: p.pid.unwrap(),
                    reason: 0,
                }),
                2 => {
                    self.c2b_qos2.insert(p.pid.unwrap());
                    self.owed.push(Owed::Ack {
                        kind: AckKind::PubRec,
                        pid: p.pid.unwrap(),
                        reason: 0,
                    });
                }
                _ => {}
            },
            CPacket::Ack(a) => match a.kind {
                AckKind::PubRel => {
                    let known = self.c2b_qos2.remove(&a.pid);
                    self.owed.push(Owed::Ack {
                        kind: AckKind::PubComp,
                        pid: a.pid,
                        reason: if known { 0 } else { 0x92 },
                    });
                }
                AckKind::PubAck => {
                    if let Some(i) = self.b2c.iter().position(|m| m.msg.qos == 1 && m.msg.pid == a.pid) {
                        self.b2c.remove(i);
                    }
                }
                AckKind::PubRec => {
                    if let Some(i) = self.b2c.iter().position(|m| m.msg.qos == 2 && m.msg.pid == a.pid) {
                        if a.reason >= 0x80 {
                            self.b2c.remove(i);
                        } else {
                            self.b2c[i].released = true;
                            self.owed.push(Owed::Ack {
                                kind: AckKind::PubRel,
                                pid: a.pid,
                                reason: 0,
                            });
                        }
                    } else {
                        // PUBREC for something we no longer know: answer PUBREL not-found
                        self.owed.push(Owed::Ack {
                            kind: AckKind::PubRel,
                            pid: a.pid,
                            reason: 0x92,
                        });
                    }
                }
                AckKind::PubComp => {
                    if let Some(i) = self.b2c.iter().position(|m| m.msg.qos == 2 && m.msg.pid == a.pid && m.released) {
                        self.b2c.remove(i);
                    }
                }
            },
            CPacket::Subscribe { pid, filters, .. } => self.owed.push(Owed::SubAck {
                pid: *pid,
                n: filters.len(),
            }),
            CPacket::Unsubscribe { pid, filters, .. } => self.owed.push(Owed::UnsubAck {
                pid: *pid,
                n: filters.len(),
            }),
            CPacket::PingReq => {
                if !self.cfg.mute_pingresp {
                    self.owed.push(Owed::PingResp);
                } else {
                    self.pings_unanswered += 1;
                }
            }
            CPacket::Disconnect { .. } => {
                self.conn_close();
            }
            CPacket::Auth { .. } => {}
        }
    }

    /// Everything a conformant broker could send now, default first.
    pub fn enabled(&self) -> Vec<Emit> {
        let mut v = Vec::new();
        if self.conn_closed {
            return v;
        }
        if !self.connected {
            if let Some(i) = self.owed.iter().position(|o| matches!(o, Owed::ConnAck { .. })) {
                v.push(Emit::Owed(i));
            }
            return v;
        }
        let win = self.cfg.reorder_window.max(1);
        let mut order: Vec<usize> = (0..self.owed.len()).collect();
        if self.cfg.pubcomp_last {
            order.sort_by_key(|i| (matches!(self.owed[*i], Owed::Ack { kind: AckKind::PubComp, .. }), *i));
        }
        for i in order.into_iter().take(win) {
            v.push(Emit::Owed(i));
        }
        if self.script_next < self.cfg.script.len() {
            let next = &self.cfg.script[self.script_next];
            let clash = next.qos > 0 && self.b2c.iter().any(|m| m.msg.pid == next.pid);
            let qos2_inflight = self.b2c.iter().filter(|m| m.msg.qos == 2).count();
            if !clash && (qos2_inflight < 8 || self.cfg.overrun) {
                v.push(Emit::Script);
            }
        }
        if self.cfg.dup_retransmit {
            for (i, m) in self.b2c.iter().enumerate() {
                if !m.released {
                    v.push(Emit::DupRetransmit(i));
                }
            }
        }
        v
    }

    pub fn quiet(&self) -> bool {
        self.owed.is_empty() && self.b2c.is_empty()
    }

    fn publish_packet(m: &InPub, dup: bool) -> SPacket {
        SPacket::Publish {
            dup,
            qos: m.qos,
            retain: m.retain,
            topic: m.topic.as_bytes().to_vec(),
            pid: if m.qos > 0 { Some(m.pid) } else { None },
            props: m.props.clone(),
            payload: m.payload.clone(),
        }
    }

    /// Produce the packet for `e`. `variant` picks among the legal forms (0 = default).
    /// For CONNACK, `variant` is interpreted by `connack`.
    pub fn emit(&mut self, e: &Emit, variant: u8) -> SPacket {
        let fail = variant == 1 || variant >= 100;
        match e {
            Emit::Script => {
                let m = self.cfg.script[self.script_next].clone();
                self.script_next += 1;
                if m.qos == 9 {
                    // scripted unsolicited PINGRESP (a valid packet the client must simply absorb)
                    return SPacket::PingResp;
                }
                let pkt = Self::publish_packet(&m, false);
                if m.qos > 0 {
                    self.b2c.push(B2c {
                        msg: m,
                        released: false,
                    });
                }
                pkt
            }
            Emit::DupRetransmit(i) => Self::publish_packet(&self.b2c[*i].msg, true),
            Emit::Owed(i) => {
                let o = self.owed.remove(*i);
                match o {
                    Owed::ConnAck { .. } => unreachable!("CONNACK is emitted through connack()"),
                    Owed::Ack { kind, pid, reason } => {
                        let reason = if fail {
                            match kind {
                                AckKind::PubComp | AckKind::PubRel => 0x92,
                                _ if variant >= 100 => self.cfg.fail_codes[(variant - 100) as usize % self.cfg.fail_codes.len()],
                                _ => 0x80,
                            }
                        } else if variant == 2 && matches!(kind, AckKind::PubAck | AckKind::PubRec) && reason == 0 {
                            0x10 // "no matching subscribers": a success
                        } else if variant == 11 && kind == AckKind::PubRel {
                            0x92
                        } else {
                            reason
                        };
                        if kind == AckKind::PubRec && reason >= 0x80 {
                            self.c2b_qos2.remove(&pid);
                        }
                        SPacket::Ack {
                            kind,
                            pid,
                            reason,
                            props: vec![],
                            form: if variant == 12 { 2 } else if reason == 0 { 0 } else { 1 },
                        }
                    }
                    Owed::SubAck { pid, n } => SPacket::SubAck {
                        pid,
                        props: vec![],
                        codes: Self::per_filter_codes(variant, n, 0x87, 0x01),
                    },
                    Owed::UnsubAck { pid, n } => SPacket::UnsubAck {
                        pid,
                        props: vec![],
                        codes: Self::per_filter_codes(variant, n, 0x87, 0x11),
                    },
                    Owed::PingResp => SPacket::PingResp,
                    Owed::Resend(pkt) => pkt,
                }
            }
        }
    }

    /// Reason codes of a SUBACK / UNSUBACK: 0 = all succeed, 1 = all fail (0x80), 3 = only the first
    /// filter is refused (`first_fail`) and the others succeed with `other_ok`, 4 = only the last one is.
    fn per_filter_codes(variant: u8, n: usize, first_fail: u8, other_ok: u8) -> Vec<u8> {
        let n = n.max(1);
        match variant {
            1 => vec![0x80; n],
            3 => {
                let mut v = vec![other_ok; n];
                v[0] = first_fail;
                v
            }
            4 => {
                let mut v = vec![0x00; n];
                v[n - 1] = 0x80;
                v
            }
            _ => vec![0x00; n],
        }
    }

    /// Number of filters of an owed SUBACK / UNSUBACK (0 for anything else).
    pub fn filters_of(&self, e: &Emit) -> usize {
        match e {
            Emit::Owed(i) => match self.owed[*i] {
                Owed::SubAck { n, .. } | Owed::UnsubAck { n, .. } => n,
                _ => 0,
            },
            _ => 0,
        }
    }

    pub fn can_fail(&self, e: &Emit) -> bool {
        match e {
            Emit::Owed(i) => matches!(
                self.owed[*i],
                Owed::Ack {
                    kind: AckKind::PubAck | AckKind::PubRec | AckKind::PubComp,
                    reason: 0,
                    ..
                } | Owed::SubAck { .. }
                    | Owed::UnsubAck { .. }
            ),
            _ => false,
        }
    }

    /// 4 = PUBACK / PUBREC / PUBCOMP owed with success, 2 = SUBACK / UNSUBACK, 0 = anything else.
    pub fn ack_form_choices(&self, e: &Emit) -> usize {
        match e {
            Emit::Owed(i) => match self.owed[*i] {
                Owed::Ack { kind: AckKind::PubAck | AckKind::PubRec | AckKind::PubComp, reason: 0, .. } => 4,
                Owed::SubAck { .. } | Owed::UnsubAck { .. } => 2,
                _ => 0,
            },
            _ => 0,
        }
    }

    pub fn is_puback_or_pubrec(&self, e: &Emit) -> bool {
        match e {
            Emit::Owed(i) => matches!(self.owed[*i], Owed::Ack { kind: AckKind::PubAck | AckKind::PubRec, reason: 0, .. }),
            _ => false,
        }
    }

    pub fn is_pubrel(&self, e: &Emit) -> bool {
        match e {
            Emit::Owed(i) => matches!(self.owed[*i], Owed::Ack { kind: AckKind::PubRel, reason: 0, .. }),
            _ => false,
        }
    }

    pub fn can_succeed_nonzero(&self, e: &Emit) -> bool {
        match e {
            Emit::Owed(i) => matches!(
                self.owed[*i],
                Owed::Ack {
                    kind: AckKind::PubAck | AckKind::PubRec,
                    reason: 0,
                    ..
                }
            ),
            _ => false,
        }
    }

    pub fn is_connack(&self, e: &Emit) -> Option<bool> {
        match e {
            Emit::Owed(i) => match self.owed[*i] {
                Owed::ConnAck { clean_start } => Some(clean_start),
                _ => None,
            },
            _ => None,
        }
    }

    pub fn can_resume(&self, clean_start: bool) -> bool {
        self.has_session && !clean_start && self.keeps_sessions
    }

    /// Emit a successful CONNACK. `resume` must only be true when `can_resume`.
    pub fn connack(&mut self, e: &Emit, resume: bool, props: Vec<Prop>) -> SPacket {
        if let Emit::Owed(i) = e {
            self.owed.remove(*i);
        }
        self.connected = true;
        if !resume {
            self.c2b_qos2.clear();
            self.b2c.clear();
        }
        self.has_session = self.keeps_sessions;
        if resume {
            for m in &self.b2c {
                let pkt = if m.released {
                    SPacket::Ack {
                        kind: AckKind::PubRel,
                        pid: m.msg.pid,
                        reason: 0,
                        props: vec![],
                        form: 0,
                    }
                } else {
                    Self::publish_packet(&m.msg, true)
                };
                self.owed.push(Owed::Resend(pkt));
            }
        }
        SPacket::ConnAck {
            session_present: resume,
            reason: 0,
            props,
        }
    }

    /// The handshake was refused or garbled: the connection is over as far as the broker goes.
    pub fn handshake_failed(&mut self) {
        self.owed.clear();
        self.connected = false;
        self.conn_closed = true;
    }
}

/// Legal CONNACK properties that must make no difference to the client (it has no use for them).
pub fn connack_extras(code: u8) -> Vec<Prop> {
    let s = |id: u8, t: &str| Prop { id, val: PVal::Str(t.as_bytes().to_vec()) };
    let b = |id: u8, x: u8| Prop { id, val: PVal::Byte(x) };
    match code {
        1 => vec![Prop { id: 0x11, val: PVal::U32(0) }],
        2 => vec![Prop { id: 0x11, val: PVal::U32(0xFFFF_FFFF) }],
        3 => vec![b(0x25, 0), b(0x28, 0), b(0x29, 0), b(0x2A, 0)],
        4 => vec![Prop { id: 0x22, val: PVal::U16(10) }],
        5 => vec![
            s(0x1F, "welcome"),
            Prop { id: 0x26, val: PVal::Pair(b"k".to_vec(), b"1".to_vec()) },
            Prop { id: 0x26, val: PVal::Pair(b"k".to_vec(), b"2".to_vec()) },
        ],
        6 => vec![s(0x1A, "resp/"), s(0x1C, "other.example:1883")],
        _ => vec![],
    }
}

/// Properties a broker may attach to any acknowledgement.
pub fn ack_dressing() -> Vec<Prop> {
    vec![
        Prop { id: 0x1F, val: PVal::Str(b"fine".to_vec()) },
        Prop { id: 0x26, val: PVal::Pair(b"k".to_vec(), b"1".to_vec()) },
        Prop { id: 0x26, val: PVal::Pair(b"k".to_vec(), b"2".to_vec()) },
    ]
}

pub fn connack_props(
    receive_max: Option<u16>,
    max_packet: Option<u32>,
    max_qos: Option<u8>,
    keepalive: Option<u16>,
    assigned: Option<&str>,
) -> Vec<Prop> {
    let mut v = Vec::new();
    if let Some(x) = receive_max {
        v.push(Prop {
            id: 0x21,
            val: PVal::U16(x),
        });
    }
    if let Some(x) = max_packet {
        v.push(Prop {
            id: 0x27,
            val: PVal::U32(x),
        });
    }
    if let Some(x) = max_qos {
        v.push(Prop {
            id: 0x24,
            val: PVal::Byte(x),
        });
    }
    if let Some(x) = keepalive {
        v.push(Prop {
            id: 0x13,
            val: PVal::U16(x),
        });
    }
    if let Some(x) = assigned {
        v.push(Prop {
            id: 0x12,
            val: PVal::Str(x.as_bytes().to_vec()),
        });
    }
    v
}
