//! C18 over long histories: handles of a replaced session stay invalidated however many fresh broker
//! sessions follow (a counter of sessions must not come round), and handles of the current session are
//! not disturbed by them. Every case is one scripted history on the real client.
use crate::direct::{guarded, hash_of, sweep, CaseOut};
use crate::direct2::*;
use crate::explore::Caps;
use crate::families::Tier;
use crate::report::FamilyReport;
use minimq::{Publication, QoS, TopicFilter};
use serde::{Deserialize, Serialize};
use serde_json::{json, Value};

#[derive(Clone, Debug, Serialize, Deserialize)]
pub struct Case {
    /// number of fresh broker sessions after the one the handles were issued in
    pub fresh_sessions: u32,
    /// every how many sessions a new QoS 1 publish is made (and left unacknowledged): it reuses the
    /// identifiers of the old handles (0 = never)
    pub publish_every: u32,
    /// resumed connections interleaved between the fresh ones (0 = none, n = one after every n-th)
    pub resume_every: u32,
}

pub fn eval(c: &Case) -> CaseOut {
    guarded("C18", || {
        let mut viol: Vec<(String, String)> = Vec::new();
        let spec = Spec::plain(64, 256);
        let out = with_session(&spec, |bench, s| {
            let (h1, h2, h3) = {
                let Conn::Ok(mut conn, id) = connect(bench, s, &connack(false, vec![])) else { panic!("machinery: first connect failed") };
                let h1 = bench.run(conn.publish(Publication::bytes("t", b"a").qos(QoS::AtLeastOnce)), id).unwrap().unwrap().unwrap();
                let h2 = bench.run(conn.publish(Publication::bytes("t", b"b").qos(QoS::ExactlyOnce)), id).unwrap().unwrap().unwrap();
                let h3 = bench.run(conn.subscribe(&[TopicFilter::new("f")], &[]), id).unwrap().unwrap();
                // the SUBSCRIBE is acknowledged, the publishes are not
                bench.push(id, &[0x90, 0x03, 0x00, 0x03, 0x00]);
                let _ = bench.run(conn.poll(), id);
                if !(conn.is_pending(&h1) && conn.is_pending(&h2) && conn.is_complete(&h3)) {
                    viol.push(("C18:long-history:setup".into(), "handles of the first session do not read pending / pending / complete".into()));
                }
                (h1, h2, h3)
            };
            let mut first_bad: Option<(u32, String)> = None;
            for n in 1..=c.fresh_sessions {
                let Conn::Ok(mut conn, id) = connect(bench, s, &connack(false, vec![])) else { panic!("machinery: connect {} failed", n) };
                for (name, h) in [("publish1", &h1), ("publish2", &h2), ("subscribe", &h3)] {
                    let st = (conn.is_pending(h), conn.is_complete(h), conn.is_invalidated(h));
                    if st != (false, false, true) && first_bad.is_none() {
                        first_bad = Some((n, format!("{} handle of the first session reads (pending, complete, invalidated) = {:?} after {} fresh sessions", name, st, n)));
                    }
                }
                if c.publish_every != 0 && n % c.publish_every == 0 {
                    // identifiers restart in a fresh session: this publish reuses an identifier of the old handles
                    let h = bench.run(conn.publish(Publication::bytes("t", b"n").qos(QoS::AtLeastOnce)), id).unwrap().unwrap().unwrap();
                    if !conn.is_pending(&h) && first_bad.is_none() {
                        first_bad = Some((n, format!("a publish made in fresh session {} does not read pending", n)));
                    }
                    let st = (conn.is_pending(&h1), conn.is_complete(&h1), conn.is_invalidated(&h1));
                    if st != (false, false, true) && first_bad.is_none() {
                        first_bad = Some((n, format!("after a new publish in fresh session {} the old publish1 handle reads {:?}", n, st)));
                    }
                }
                drop(conn);
                if c.resume_every != 0 && n % c.resume_every == 0 {
                    let Conn::Ok(conn, _) = connect(bench, s, &connack(true, vec![])) else { panic!("machinery: resumed connect failed") };
                    let st = (conn.is_pending(&h1), conn.is_complete(&h1), conn.is_invalidated(&h1));
                    if st != (false, false, true) && first_bad.is_none() {
                        first_bad = Some((n, format!("on a resumed connection after {} fresh sessions the old publish1 handle reads {:?}", n, st)));
                    }
                }
            }
            first_bad
        });
        let Built::Ran(first_bad) = out else { panic!("machinery: config refused") };
        if let Some((n, d)) = &first_bad {
            let ctx = if *n >= 255 { "after-255-or-more-fresh-sessions" } else { "after-few-fresh-sessions" };
            viol.push((format!("C18:stale-handle-not-invalidated:{}", ctx), d.clone()));
        }
        CaseOut { class: hash_of(&(first_bad.is_some(), c.publish_every != 0, c.resume_every != 0)), viol }
    })
}

pub fn run(tier: Tier, caps: &Caps) -> Vec<FamilyReport> {
    let mut cs = Vec::new();
    let lens: Vec<u32> = if tier == Tier::Quick { vec![1, 2, 300] } else { vec![1, 2, 3, 255, 256, 257, 600, 66_000] };
    for fresh_sessions in lens {
        for publish_every in [0u32, 1, 7] {
            for resume_every in [0u32, 3] {
                cs.push(Case { fresh_sessions, publish_every, resume_every });
            }
        }
    }
    vec![sweep(
        "C18-long-histories-of-fresh-sessions",
        "C18",
        cs.len() as u64,
        caps,
        json!({"cases": cs.len(), "dimensions": "handles of a QoS 1 publish, a QoS 2 publish (both unacknowledged) and an acknowledged SUBSCRIBE, followed by 1..300 (thorough: up to 66 000) fresh broker sessions, with new publishes reusing their identifiers every 1 / 7 sessions or never, and resumed connections in between; after every connect the three handles must read invalidated"}),
        &|i| eval(&cs[i as usize]),
        &|i| serde_json::to_value(&cs[i as usize]).unwrap(),
    )]
}

pub fn replay(_name: &str, case: &Value) -> Option<CaseOut> {
    Some(eval(&serde_json::from_value(case.clone()).ok()?))
}
