//! C14: Maximum Packet Size is honoured in both directions.
use crate::direct::{guarded, hash_of, sweep, CaseOut};
use crate::direct2::*;
use crate::explore::Caps;
use crate::families::Tier;
use crate::mqtt_ref::{self as mr, CPacket, PVal, Prop};
use crate::report::FamilyReport;
use crate::world::{inmsg_of, Res};
use minimq::{Disconnect, Property, Publication, QoS, ReasonCode, TopicFilter};
use serde::{Deserialize, Serialize};
use serde_json::{json, Value};

fn flag(viol: &mut Vec<(String, String)>, rule: &str, ctx: &str, detail: String) {
    viol.push((format!("C14:{}:{}", rule, ctx), detail));
}

thread_local! {
    /// how the CONNACK of the current case is dressed (see `SiteCase::dress`)
    static DRESS: std::cell::Cell<u8> = const { std::cell::Cell::new(0) };
}

/// The CONNACK properties carrying Maximum Packet Size `m`, among other properties and in different
/// positions according to the current case's `dress`: 0 alone; 1 behind / 2 in front of an Assigned
/// Client Identifier echoing the client's own; 3 in the middle of Receive Maximum, Topic Alias Maximum,
/// a user property and a reason string; 4 the same reversed; 5 behind a different assigned identifier;
/// 6..9 behind 16, 17, 30, 60 user properties.
fn maxprop(m: Option<u32>) -> Vec<Prop> {
    let Some(m) = m else { return vec![] };
    let x = Prop { id: 0x27, val: PVal::U32(m) };
    let echo = Prop { id: 0x12, val: PVal::Str(b"mcx".to_vec()) };
    let mut v = match DRESS.with(|d| d.get()) {
        1 => vec![echo, x],
        2 => vec![x, echo],
        3 | 4 => vec![
            Prop { id: 0x21, val: PVal::U16(20) },
            Prop { id: 0x22, val: PVal::U16(5) },
            x,
            Prop { id: 0x26, val: PVal::Pair(b"k".to_vec(), b"v".to_vec()) },
            Prop { id: 0x1F, val: PVal::Str(b"ok".to_vec()) },
        ],
        5 => vec![Prop { id: 0x12, val: PVal::Str(b"renamed".to_vec()) }, x],
        // behind 16, 17, 30 and 60 user properties (a property that may repeat without limit)
        d @ 6..=9 => {
            let n = [16usize, 17, 30, 60][d as usize - 6];
            let mut v: Vec<Prop> = (0..n).map(|i| Prop { id: 0x26, val: PVal::Pair(b"k".to_vec(), vec![b'0' + (i % 10) as u8]) }).collect();
            v.push(x);
            v
        }
        _ => vec![x],
    };
    if DRESS.with(|d| d.get()) == 4 {
        v.reverse();
    }
    v
}

// ---------------------------------------------------------------------------------------------
// Outbound request sites
// ---------------------------------------------------------------------------------------------

#[derive(Clone, Debug, Serialize, Deserialize)]
pub struct SiteCase {
    pub m: u32,
    /// 0 pub0, 1 pub1, 2 pub2, 3 subscribe, 4 unsubscribe, 5 disconnect(), 6 disconnect with reason,
    /// 7 disconnect with reason string of `n` bytes
    pub site: u8,
    /// size parameter (payload / filter / reason-string length)
    pub n: usize,
    /// position of Maximum Packet Size among other CONNACK properties (see `maxprop`)
    #[serde(default)]
    pub dress: u8,
}

fn site_name(s: u8) -> &'static str {
    ["publish0", "publish1", "publish2", "subscribe", "unsubscribe", "disconnect", "disconnect-reason", "disconnect-props"][s as usize]
}

/// Perform the request on a fresh connection whose CONNACK carries `m`; afterwards reconnect with the
/// session present and no limit, and poll once. Returns (result, bytes written by the request,
/// quiescent after the request, alive after the request, identifier-bearing packets replayed later).
fn do_site(c: &SiteCase, m: Option<u32>) -> Option<(Result<(), Res>, Vec<u8>, bool, bool, usize)> {
    let spec = Spec::plain(if c.dress >= 6 { 1024 } else { 64 }, (2 * c.m as usize + 96).max(512));
    let out = with_session(&spec, |bench, s| {
        let (r, written, quiescent, alive) = {
            let Conn::Ok(mut conn, id) = connect(bench, s, &connack(false, maxprop(m))) else { return None };
            let before = bench.written(id).len();
            let payload = vec![0x42u8; c.n];
            let name: String = "f".repeat(c.n.max(1));
            let r: Result<(), Res> = match c.site {
                0..=2 => bench
                    .run(conn.publish(Publication::bytes("t", &payload).qos(qos_of(c.site))), id)
                    .map(|r| r.map(|_| ()).map_err(|e| Res::from_pub(&e)))
                    .unwrap_or(Err(Res::Cancelled)),
                3 => bench
                    .run(conn.subscribe(&[TopicFilter::new(&name)], &[]), id)
                    .map(|r| r.map(|_| ()).map_err(|e| Res::from_err(&e)))
                    .unwrap_or(Err(Res::Cancelled)),
                4 => bench
                    .run(conn.unsubscribe(&[&name], &[]), id)
                    .map(|r| r.map(|_| ()).map_err(|e| Res::from_err(&e)))
                    .unwrap_or(Err(Res::Cancelled)),
                5 => bench.run(conn.disconnect(), id).map(|r| r.map_err(|e| Res::from_err(&e))).unwrap_or(Err(Res::Cancelled)),
                6 => bench
                    .run(conn.disconnect_with(Disconnect::with_reason(ReasonCode::DisconnectWithWill)), id)
                    .map(|r| r.map_err(|e| Res::from_err(&e)))
                    .unwrap_or(Err(Res::Cancelled)),
                _ => {
                    let text: String = "r".repeat(c.n);
                    let props = [Property::ReasonString(&text)];
                    bench
                        .run(conn.disconnect_with(Disconnect::success().with_properties(&props)), id)
                        .map(|r| r.map_err(|e| Res::from_err(&e)))
                        .unwrap_or(Err(Res::Cancelled))
                }
            };
            (r, bench.written(id)[before..].to_vec(), conn.session().is_publish_quiescent(), conn.is_connected())
        };
        // a later resumed connection without a limit: anything retained would be replayed now
        let replayed = match connect(bench, s, &connack(true, vec![])) {
            Conn::Ok(mut conn, id) => {
                let before = bench.written(id).len();
                let _ = bench.run(conn.poll(), id);
                bench.written(id)[before..].len()
            }
            _ => usize::MAX,
        };
        Some((r, written, quiescent, alive, replayed))
    });
    match out {
        Built::Ran(x) => x,
        Built::Config(_) => None,
    }
}

pub fn eval_site(c: &SiteCase) -> CaseOut {
    DRESS.with(|d| d.set(c.dress));
    guarded("C14", || {
        let mut viol = Vec::new();
        let name = site_name(c.site);
        // twin without a limit: how long is this request on the wire?
        let Some((r0, w0, _, _, _)) = do_site(c, None) else { panic!("machinery: twin setup failed") };
        let Some((r, w, quiescent, alive, replayed)) = do_site(c, Some(c.m)) else { panic!("machinery: setup failed") };
        if r0.is_err() {
            // the request cannot be made at all (e.g. reason string too long for the control buffer):
            // with a limit it must fail as well, and send nothing
            if r.is_ok() || !w.is_empty() {
                flag(&mut viol, "Z2-limit-changes-local-failure", name, format!("{:?} fails with {:?} without a limit but gives {:?} / {} bytes with limit {}", c, r0, r, w.len(), c.m));
            }
            return CaseOut { class: 7, viol };
        }
        let len = w0.len();
        if len as u64 <= c.m as u64 {
            if r.is_err() || w != w0 {
                flag(&mut viol, "Z2-fitting-request-refused", name, format!("{} of {} bytes with Maximum Packet Size {}: result {:?}, wrote {} bytes", name, len, c.m, r, w.len()));
            }
            CaseOut { class: hash_of(&(c.site, 1)), viol }
        } else {
            if !w.is_empty() {
                flag(&mut viol, "Z1-oversize", name, format!("{} of {} bytes with Maximum Packet Size {}: {} bytes were written ({})", name, len, c.m, w.len(), mr::hex(&w[..w.len().min(32)])));
            }
            if r != Err(Res::PacketTooLarge) {
                flag(&mut viol, "Z2-wrong-result", &format!("{}-{:?}", name, r), format!("{} of {} bytes with Maximum Packet Size {} returned {:?}", name, len, c.m, r));
            }
            if !quiescent {
                flag(&mut viol, "Z2-oversize-retained", name, format!("refused {} left in-flight state behind", name));
            }
            if replayed != 0 {
                flag(&mut viol, "Z2-oversize-replayed", name, format!("refused {}: {} bytes appear on the next resumed connection", name, replayed));
            }
            if !alive && c.site < 5 {
                flag(&mut viol, "Z2-oversize-kills-handle", name, format!("refused {} closed the handle", name));
            }
            CaseOut { class: hash_of(&(c.site, 2)), viol }
        }
    })
}

fn site_cases(tier: Tier) -> Vec<SiteCase> {
    let mut v = Vec::new();
    let mut ms: Vec<u32> = (2..=40).collect();
    ms.extend([126, 127, 128, 129, 130, 131, 132, 133]);
    if tier == Tier::Thorough {
        ms.extend(41..=125);
        ms.extend(134..=2000);
        ms.extend(16370..=16400);
        ms.extend(65530..=65545);
    }
    for m in ms {
        for site in 0..8u8 {
            let ns: Vec<usize> = match site {
                5 | 6 => vec![0],
                7 => {
                    // reason strings around the control-packet buffer and straddling m (encoded length = n + 8)
                    let mut v: Vec<usize> = (0..=6).collect();
                    let lo = (m as usize).saturating_sub(12);
                    v.extend(lo..=m as usize + 3);
                    v.sort();
                    v.dedup();
                    v
                }
                _ => {
                    // sizes whose encoded length straddles m (encoded length = n + 6..9 (+1 above 127))
                    let lo = (m as usize).saturating_sub(12);
                    let mut v: Vec<usize> = (lo..=m as usize + 3).collect();
                    if tier == Tier::Thorough {
                        // far below and far above the limit as well
                        v.extend([0usize, 1, m as usize / 2, 2 * m as usize + 5]);
                        v.sort();
                        v.dedup();
                    }
                    v
                }
            };
            for n in ns {
                v.push(SiteCase { m, site, n, dress: 0 });
                // the limit at other positions of the CONNACK property block: around the boundary only
                if (n as i64 - m as i64).abs() <= 8 && (m % 7 == 3 || tier == Tier::Thorough) {
                    for dress in 1..=9u8 {
                        v.push(SiteCase { m, site, n, dress });
                    }
                }
            }
        }
    }
    v
}

// ---------------------------------------------------------------------------------------------
// Mandatory acknowledgements under a tiny limit, and replay under a smaller limit
// ---------------------------------------------------------------------------------------------

#[derive(Clone, Debug, Serialize, Deserialize)]
pub struct AckCase {
    pub m: u32,
    /// 0: inbound QoS 1 -> PUBACK; 1: inbound QoS 2 -> PUBREC; 2: PUBREL unknown id -> PUBCOMP(0x92);
    /// 3: inbound QoS 2, PUBREC on an unlimited connection, then PUBREL on a resumed connection with `m`;
    /// 4: keep-alive PINGREQ; 5/6: inbound QoS 1/2 delivered on an unlimited connection, handle dropped before
    /// the acknowledgement was written, resumed connection with `m`; 7: PUBREL replayed on a resumed connection;
    /// 8: inbound QoS 2 acknowledged, its PUBREL consumed on the unlimited connection by a poll() that is dropped
    /// when the PUBCOMP's write does not complete, resumed connection with `m`
    pub kind: u8,
}

fn run_ack(c: &AckCase, m: Option<u32>) -> Option<(Vec<Res>, Vec<u8>, bool)> {
    let mut spec = Spec::plain(64, 128);
    if c.kind == 4 {
        spec.keepalive = 10;
    }
    let out = with_session(&spec, |bench, s| {
        let first_m = if matches!(c.kind, 3 | 5 | 6 | 7 | 8) { None } else { m };
        let Conn::Ok(mut conn, mut id) = connect(bench, s, &connack(false, maxprop(first_m))) else { return None };
        let mut results: Vec<Res> = Vec::new();
        let poll = |conn: &mut minimq::Connection<'_, '_, crate::world::VirtualIo>, id: usize, results: &mut Vec<Res>| match bench.run(conn.poll(), id) {
            None => false,
            Some(Ok(_)) => true,
            Some(Err(e)) => {
                results.push(Res::from_err(&e));
                false
            }
        };
        match c.kind {
            0 | 5 => bench.push(id, &[0x32, 0x07, 0x00, 0x01, b'a', 0x00, 0x07, 0x00, 0x55]),
            1 | 3 | 6 | 8 => bench.push(id, &[0x34, 0x07, 0x00, 0x01, b'a', 0x00, 0x07, 0x00, 0x55]),
            2 => bench.push(id, &[0x62, 0x02, 0x00, 0x09]),
            7 => {
                // outbound QoS 2 publish whose PUBREC is consumed here: PUBREL stays pending until PUBCOMP
                let _ = bench.run(conn.publish(Publication::bytes("t", b"p").qos(QoS::ExactlyOnce)), id);
                bench.push(id, &[0x50, 0x02, 0x00, 0x01]);
            }
            _ => {}
        }
        if c.kind == 4 {
            // let the keep-alive timer fire
            crate::clock::advance_ms(6_000);
        }
        let before = bench.written(id).len();
        let rounds = if matches!(c.kind, 4 | 5 | 6) { 1 } else { 4 };
        for _ in 0..rounds {
            if !poll(&mut conn, id, &mut results) {
                break;
            }
        }
        if c.kind == 8 {
            // the PUBREC went out above; now the PUBREL arrives and the PUBCOMP it calls for is never written here
            bench.push(id, &[0x62, 0x02, 0x00, 0x07]);
            if bench.run_dropped_at_next_write(conn.poll()).is_some() {
                panic!("machinery: the poll that owes a PUBCOMP finished without writing");
            }
        }
        let mut written = bench.written(id)[before..].to_vec();
        let mut alive = conn.is_connected();
        if matches!(c.kind, 3 | 5 | 6 | 7 | 8) {
            drop(conn);
            let Conn::Ok(mut conn2, id2) = connect(bench, s, &connack(true, maxprop(m))) else { return None };
            id = id2;
            if c.kind == 3 {
                bench.push(id, &[0x62, 0x02, 0x00, 0x07]);
            }
            let before = bench.written(id).len();
            results.clear();
            for _ in 0..4 {
                if !poll(&mut conn2, id, &mut results) {
                    break;
                }
            }
            written = bench.written(id)[before..].to_vec();
            alive = conn2.is_connected();
        }
        Some((results, written, alive))
    });
    match out {
        Built::Ran(x) => x,
        Built::Config(_) => None,
    }
}

pub fn eval_ack(c: &AckCase) -> CaseOut {
    DRESS.with(|d| d.set(0));
    guarded("C14", || {
        let mut viol = Vec::new();
        let Some((r0, w0, a0)) = run_ack(c, None) else { panic!("machinery: twin setup failed") };
        let name = ["PUBACK", "PUBREC", "PUBCOMP-not-found", "PUBCOMP-after-resume", "PINGREQ", "PUBACK-queued-before-reconnect", "PUBREC-queued-before-reconnect", "PUBREL-replayed-after-reconnect", "PUBCOMP-queued-before-reconnect"][c.kind as usize];
        if !r0.is_empty() || !a0 || w0.is_empty() {
            panic!("machinery: unlimited twin of {} misbehaves: {:?} {:?} {}", name, r0, mr::hex(&w0), a0);
        }
        // the mandatory packet is the last one the unlimited twin wrote
        let mut owed_len = 0;
        let mut off = 0;
        while off < w0.len() {
            match mr::decode_client(&w0[off..]) {
                Ok((_, n)) => {
                    owed_len = n;
                    off += n;
                }
                Err(_) => panic!("machinery: twin wrote undecodable bytes"),
            }
        }
        let Some((results, written, alive)) = run_ack(c, Some(c.m)) else { panic!("machinery: setup failed") };
        // every packet written must fit
        let mut off = 0;
        while off < written.len() {
            match mr::decode_client(&written[off..]) {
                Ok((p, n)) => {
                    if n as u64 > c.m as u64 {
                        flag(&mut viol, "Z1-oversize", p.name(), format!("{} of {} bytes written with Maximum Packet Size {}", p.name(), n, c.m));
                    }
                    off += n;
                }
                Err(_) => break,
            }
        }
        if owed_len as u64 > c.m as u64 {
            if alive {
                flag(&mut viol, "Z3-connection-not-closed", name, format!("{} ({} bytes) cannot be sent with Maximum Packet Size {} but the handle stays connected (results {:?})", name, owed_len, c.m, results));
            }
            if results.is_empty() {
                flag(&mut viol, "Z3-no-error", name, format!("{} cannot be sent but no operation reported an error", name));
            }
        } else {
            if !alive || !results.is_empty() {
                flag(&mut viol, "Z3-fitting-ack-fails", name, format!("{} ({} bytes) fits {} but results {:?} alive={}", name, owed_len, c.m, results, alive));
            }
            if written != w0 {
                flag(&mut viol, "Z3-ack-missing", name, format!("{} fits {} but the client wrote {} instead of {}", name, c.m, mr::hex(&written), mr::hex(&w0)));
            }
        }
        CaseOut { class: hash_of(&(c.kind, owed_len as u64 > c.m as u64)), viol }
    })
}

#[derive(Clone, Debug, Serialize, Deserialize)]
pub struct ReplayCase {
    /// 1 publish1, 2 publish2, 3 subscribe
    pub kind: u8,
    pub n: usize,
    /// limit on the resumed connection relative to the retained packet's length
    pub delta: i32,
    /// position of Maximum Packet Size among other CONNACK properties (see `maxprop`)
    #[serde(default)]
    pub dress: u8,
    /// transmit arena only a little larger than the retained packet (the free space at the handshake is below the limit)
    #[serde(default)]
    pub tight: bool,
    /// a second, shorter request of the same kind (this many payload bytes / filter characters) retained behind the
    /// first one; the limit is still taken relative to the first
    #[serde(default)]
    pub second: Option<usize>,
}

pub fn eval_replay(c: &ReplayCase) -> CaseOut {
    DRESS.with(|d| d.set(c.dress));
    guarded("C14", || {
        let mut viol = Vec::new();
        let spec = Spec::plain(64, if c.tight { c.n + 64 } else { 512 });
        let out = with_session(&spec, |bench, s| {
            let len = {
                let Conn::Ok(mut conn, id) = connect(bench, s, &connack(false, vec![])) else { return None };
                let before = bench.written(id).len();
                let payload = vec![0x42u8; c.n];
                let name = "f".repeat(c.n.max(1));
                match c.kind {
                    1 | 2 => {
                        let _ = bench.run(conn.publish(Publication::bytes("t", &payload).qos(qos_of(c.kind))), id);
                    }
                    _ => {
                        let _ = bench.run(conn.subscribe(&[TopicFilter::new(&name)], &[]), id);
                    }
                }
                let len = bench.written(id).len() - before;
                if let Some(n2) = c.second {
                    let payload2 = vec![0x43u8; n2];
                    let name2 = "g".repeat(n2.max(1));
                    match c.kind {
                        1 | 2 => {
                            let _ = bench.run(conn.publish(Publication::bytes("t", &payload2).qos(qos_of(c.kind))), id);
                        }
                        _ => {
                            let _ = bench.run(conn.subscribe(&[TopicFilter::new(&name2)], &[]), id);
                        }
                    }
                }
                len
            };
            let m = (len as i64 + c.delta as i64).max(2) as u32;
            let Conn::Ok(mut conn, id) = connect(bench, s, &connack(true, maxprop(Some(m)))) else { return None };
            let before = bench.written(id).len();
            let mut errs = Vec::new();
            for _ in 0..3 {
                match bench.run(conn.poll(), id) {
                    Some(Err(e)) => errs.push(Res::from_err(&e)),
                    Some(Ok(_)) => {}
                    None => break,
                }
            }
            let written = bench.written(id)[before..].to_vec();
            // once a fitting QoS 1 publish is acknowledged, a new request larger than the limit (it fits the arena)
            let mut follow = None;
            if c.kind == 1 && len as u64 <= m as u64 && written.len() == len && errs.is_empty() {
                if let Ok((CPacket::Publish(pp), _)) = mr::decode_client(&written) {
                    if let Some(pid) = pp.pid {
                        bench.push(id, &mr::SPacket::Ack { kind: mr::AckKind::PubAck, pid, reason: 0, props: vec![], form: 0 }.encode());
                        let _ = bench.run(conn.poll(), id);
                        let before2 = bench.written(id).len();
                        let big = vec![0x55u8; m as usize];
                        let r = match bench.run(conn.publish(Publication::bytes("t", &big)), id) {
                            Some(Ok(_)) => Res::Ok,
                            Some(Err(e)) => Res::from_pub(&e),
                            None => Res::Cancelled,
                        };
                        follow = Some((r, bench.written(id).len() - before2));
                    }
                }
            }
            Some((len, m, written, errs, conn.is_connected(), follow))
        });
        let Built::Ran(Some((len, m, written, errs, _alive, follow))) = out else { panic!("machinery: setup failed") };
        let name = ["", "publish1", "publish2", "subscribe"][c.kind as usize];
        if let Some((r, sent)) = follow {
            if sent > 0 {
                flag(&mut viol, "Z1-oversize", "publish-after-replay", format!("limit {} on a resumed connection: a new {}-byte-payload PUBLISH went out ({} bytes, result {:?})", m, m, sent, r));
            } else if r != Res::PacketTooLarge {
                flag(&mut viol, "Z2-wrong-error", "publish-after-replay", format!("limit {} on a resumed connection: a new PUBLISH with {} payload bytes failed with {:?}, not packet-too-large", m, m, r));
            }
        }
        if c.second.is_some() {
            // two retained packets: whatever is replayed, nothing longer than the limit may be among it
            let mut off = 0;
            while off < written.len() {
                match mr::decode_client(&written[off..]) {
                    Ok((p, n)) => {
                        if n as u64 > m as u64 {
                            flag(&mut viol, "Z1-oversize", &format!("replay-{}-behind-a-shorter-one", name), format!("retained {} of {} bytes replayed although the new Maximum Packet Size is {} (a shorter one was retained after it)", p.name(), n, m));
                        }
                        off += n;
                    }
                    Err(_) => break,
                }
            }
        } else if len as u64 > m as u64 {
            if !written.is_empty() {
                flag(&mut viol, "Z1-oversize", &format!("replay-{}", name), format!("retained {} of {} bytes replayed although the new Maximum Packet Size is {} ({} bytes written)", name, len, m, written.len()));
            }
        } else {
            if written.len() != len || !errs.is_empty() {
                flag(&mut viol, "Z2-fitting-replay-missing", &format!("replay-{}", name), format!("retained {} of {} bytes, limit {}: wrote {} bytes, errors {:?}", name, len, m, written.len(), errs));
            }
        }
        CaseOut { class: hash_of(&(c.kind, len as u64 > m as u64)), viol }
    })
}

// ---------------------------------------------------------------------------------------------
// The client's own maximum: advertised size and oversize inbound packets
// ---------------------------------------------------------------------------------------------

#[derive(Clone, Debug, Serialize, Deserialize)]
pub struct InCase {
    pub rx: usize,
    /// total length of the inbound PUBLISH (QoS 0, topic "a"); for `declared_only` just the header is sent
    pub total: usize,
    pub declared_only: bool,
    pub bytewise: bool,
}

/// Fixed header of a QoS 0 PUBLISH whose total length is `total`.
fn header_for_total(total: usize) -> Option<(Vec<u8>, usize)> {
    for hl in 1..=4usize {
        if total < 1 + hl + 4 {
            continue;
        }
        let rem = total - 1 - hl;
        if rem > 268_435_455 || mr::varint_len(rem as u32) != hl {
            continue;
        }
        let mut b = vec![0x30];
        mr::put_varint(&mut b, rem as u32);
        return Some((b, rem));
    }
    None
}

fn publish_of_total(total: usize) -> Option<Vec<u8>> {
    let (mut b, rem) = header_for_total(total)?;
    b.extend_from_slice(&[0x00, 0x01, b'a', 0x00]);
    b.extend((0..rem - 4).map(|i| (i % 253) as u8));
    Some(b)
}

pub fn eval_in(c: &InCase) -> CaseOut {
    DRESS.with(|d| d.set(0));
    guarded("C14", || {
        let mut viol = Vec::new();
        let bytes: Vec<u8> = if c.declared_only {
            match header_for_total(c.total) {
                Some((mut b, _)) => {
                    b.extend_from_slice(&[0x00, 0x01, b'a', 0x00, 1, 2, 3]);
                    b
                }
                None => return CaseOut { class: 98, viol },
            }
        } else {
            match publish_of_total(c.total) {
                Some(b) => b,
                None => return CaseOut { class: 98, viol },
            }
        };
        let declared = mr::fixed_header(&bytes).map(|f| f.total()).unwrap_or(0);
        let spec = Spec::plain(c.rx, 128);
        let out = with_session(&spec, |bench, s| {
            let (io, id) = bench.io();
            bench.push(id, &[0x20, 0x03, 0x00, 0x00, 0x00]);
            let mut conn = match bench.run(s.connect(io), id) {
                Some(Ok(c)) => c,
                _ => return None,
            };
            let connect_bytes = bench.written(id);
            let mut fed = 0;
            if !c.bytewise {
                bench.push(id, &bytes);
                fed = bytes.len();
            }
            let mut delivered = Vec::new();
            let mut last: Option<Res> = None;
            let mut guard = 0;
            loop {
                guard += 1;
                if guard > bytes.len() + 8 {
                    break;
                }
                if c.bytewise && bench.inbound_left(id) == 0 && fed < bytes.len() {
                    bench.push(id, &bytes[fed..fed + 1]);
                    fed += 1;
                }
                match bench.run(conn.poll(), id) {
                    None => {
                        if c.bytewise && fed < bytes.len() {
                            continue;
                        }
                        break;
                    }
                    Some(Ok(Some(m))) => delivered.push(inmsg_of(&m)),
                    Some(Ok(None)) => {}
                    Some(Err(e)) => {
                        last = Some(Res::from_err(&e));
                        break;
                    }
                }
            }
            Some((connect_bytes, delivered, last, conn.is_connected()))
        });
        let Built::Ran(Some((connect_bytes, delivered, last, alive))) = out else { panic!("machinery: setup failed") };
        // Z4
        match mr::decode_client(&connect_bytes) {
            Ok((CPacket::Connect(cp), _)) => {
                let adv = cp.props.iter().find_map(|p| match (&p.id, &p.val) {
                    (0x27, PVal::U32(v)) => Some(*v),
                    _ => None,
                });
                if adv != Some(c.rx as u32) {
                    flag(&mut viol, "Z4-advertised-max", "connect", format!("CONNECT advertises Maximum Packet Size {:?}, receive buffer is {}", adv, c.rx));
                }
            }
            _ => flag(&mut viol, "Z4-advertised-max", "connect-undecodable", mr::hex(&connect_bytes)),
        }
        if declared <= c.rx && !c.declared_only {
            let hl = mr::fixed_header(&bytes).map(|f| f.header_len).unwrap_or(2) + 4;
            let ok = delivered.len() == 1 && delivered[0].topic == b"a" && delivered[0].payload[..] == bytes[hl..];
            if !ok || last.is_some() || !alive {
                flag(&mut viol, "Z5-fitting-packet-refused", "publish", format!("inbound PUBLISH of {} bytes with a {}-byte receive buffer: delivered {} messages, error {:?}, alive {}", declared, c.rx, delivered.len(), last, alive));
            }
        } else {
            if !delivered.is_empty() {
                flag(&mut viol, "Z5-oversize-delivered", "publish", format!("inbound packet declares {} bytes, buffer {}: a message was delivered", declared, c.rx));
            }
            if last != Some(Res::InvalidPacket) || alive {
                flag(&mut viol, "Z5-oversize-not-rejected", &format!("{:?}", last), format!("inbound packet declares {} bytes, buffer {}: result {:?}, alive {}", declared, c.rx, last, alive));
            }
        }
        CaseOut { class: hash_of(&(declared <= c.rx, c.declared_only, c.bytewise)), viol }
    })
}

// ---------------------------------------------------------------------------------------------

pub fn run(tier: Tier, caps: &Caps) -> Vec<FamilyReport> {
    let mut out = Vec::new();
    let sc = site_cases(tier);
    out.push(sweep(
        "C14-request-sites-around-the-limit",
        "C14",
        sc.len() as u64,
        caps,
        json!({"cases": sc.len(), "dimensions": "broker Maximum Packet Size 2..=40 and 126..=133 (thorough: 2..=2000, 16370..=16400, 65530..=65545) x {publish QoS 0/1/2, subscribe, unsubscribe} with sizes straddling the limit, disconnect(), disconnect with reason, disconnect with reason strings 0..6 and of lengths straddling the limit; each compared with an unlimited twin; followed by a resumed unlimited connection to expose anything retained"}),
        &|i| eval_site(&sc[i as usize]),
        &|i| serde_json::to_value(&sc[i as usize]).unwrap(),
    ));
    let mut ac = Vec::new();
    for m in 2..=8u32 {
        for kind in 0..9u8 {
            ac.push(AckCase { m, kind });
        }
    }
    out.push(sweep(
        "C14-mandatory-packets-under-tiny-limits",
        "C14",
        ac.len() as u64,
        caps,
        json!({"cases": ac.len(), "dimensions": "Maximum Packet Size 2..=8 x {PUBACK, PUBREC, PUBCOMP not-found, PUBCOMP after a resumed reconnect, PINGREQ, PUBACK / PUBREC / PUBCOMP queued on an unlimited connection and replayed on a resumed limited one, PUBREL replayed on a resumed limited one}"}),
        &|i| eval_ack(&ac[i as usize]),
        &|i| serde_json::to_value(&ac[i as usize]).unwrap(),
    ));
    let mut rc = Vec::new();
    for kind in 1..=3u8 {
        for n in [1usize, 2, 20, 118, 119, 120, 121, 122, 200] {
            for delta in -3..=3 {
                for dress in [0u8, 1, 2, 3, 4] {
                    rc.push(ReplayCase { kind, n, delta, dress, tight: false, second: None });
                    if dress == 0 && n >= 20 {
                        rc.push(ReplayCase { kind, n, delta, dress, tight: false, second: Some(2) });
                    }
                    if dress < 2 {
                        rc.push(ReplayCase { kind, n, delta, dress, tight: true, second: None });
                    }
                }
            }
        }
    }
    out.push(sweep(
        "C14-replay-under-a-smaller-limit",
        "C14",
        rc.len() as u64,
        caps,
        json!({"cases": rc.len(), "dimensions": "{publish QoS 1, publish QoS 2, subscribe} x 9 sizes retained on an unlimited connection, then a resumed connection whose limit is the packet length -3..=+3, in a roomy arena and in one barely larger than the packet (free space at the handshake below the limit); after an acknowledged fitting QoS 1 replay a new PUBLISH larger than the limit"}),
        &|i| eval_replay(&rc[i as usize]),
        &|i| serde_json::to_value(&rc[i as usize]).unwrap(),
    ));
    let mut ic = Vec::new();
    let mut rxs: Vec<usize> = (5..=64).collect();
    rxs.extend([127, 128, 129, 130, 131, 200, 16383, 16384, 16385, 16386, 16387]);
    for rx in rxs {
        for total in [rx.saturating_sub(2), rx - 1, rx, rx + 1, rx + 2, rx + 3] {
            for bytewise in [false, true] {
                if bytewise && rx > 300 && tier == Tier::Quick {
                    continue;
                }
                ic.push(InCase { rx, total, declared_only: false, bytewise });
            }
        }
        for total in [rx + 1, 2 * rx + 7, 1 << 21, 268_435_455 + 5] {
            if total < 12 {
                continue;
            }
            for bytewise in [false, true] {
                ic.push(InCase { rx, total, declared_only: true, bytewise });
            }
        }
    }
    out.push(sweep(
        "C14-own-maximum-advertised-and-enforced",
        "C14",
        ic.len() as u64,
        caps,
        json!({"cases": ic.len(), "dimensions": "receive buffers 5..=64, 127..131, 200, 16383..16387 x inbound PUBLISH of total length rx-2..rx+3 (complete) and declared lengths rx+1, 2rx+7, 2 MiB, 256 MiB (header only), each fed whole and byte by byte; CONNECT's Maximum Packet Size decoded and compared with rx"}),
        &|i| eval_in(&ic[i as usize]),
        &|i| serde_json::to_value(&ic[i as usize]).unwrap(),
    ));
    out
}

pub fn replay(name: &str, case: &Value) -> Option<CaseOut> {
    Some(match name {
        "C14-request-sites-around-the-limit" => eval_site(&serde_json::from_value(case.clone()).ok()?),
        "C14-mandatory-packets-under-tiny-limits" => eval_ack(&serde_json::from_value(case.clone()).ok()?),
        "C14-replay-under-a-smaller-limit" => eval_replay(&serde_json::from_value(case.clone()).ok()?),
        "C14-own-maximum-advertised-and-enforced" => eval_in(&serde_json::from_value(case.clone()).ok()?),
        _ => return None,
    })
}

#[allow(unused)]
fn _keep(_: QoS) {}
