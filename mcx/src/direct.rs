//! Direct exhaustive enumerations over input spaces (properties about "every input").
//! Each case is one scripted scenario on the real client; cases are enumerated, never sampled.
#![allow(dead_code)]

use crate::bench::Bench;
use crate::cfg::BrokerCfg;
use crate::explore::Caps;
use crate::families::Tier;
use crate::mqtt_ref::{self as mr, AckKind, CPacket, MalClass, PVal, Prop, SClass, SPacket};
use crate::oracle::InMsg;
use crate::report::{FamilyReport, FoundOut};
use crate::world::{inmsg_of, panic_text, Res, VirtualIo, Watchdog};
use minimq::{Buffers, ConfigBuilder, Connection, Publication, QoS, Session};
use serde_json::{json, Value};
use std::collections::{BTreeMap, HashSet};
use std::sync::atomic::{AtomicU64, Ordering};
use std::sync::Mutex;
use std::time::Instant;

pub struct CaseOut {
    /// class of the observable outcome (for counting distinct outcomes)
    pub class: u64,
    pub viol: Vec<(String, String)>,
}

/// Enumerate `n` cases over all cores. `eval(i)` evaluates case `i`; `describe(i)` renders it.
pub fn sweep(
    name: &str,
    prop: &str,
    n: u64,
    caps: &Caps,
    bounds: Value,
    eval: &(dyn Fn(u64) -> CaseOut + Sync),
    describe: &(dyn Fn(u64) -> Value + Sync),
) -> FamilyReport {
    let t0 = Instant::now();
    let next = AtomicU64::new(0);
    let found: Mutex<BTreeMap<String, (u64, u64, String)>> = Mutex::new(BTreeMap::new());
    let classes: Mutex<HashSet<u64>> = Mutex::new(HashSet::new());
    let done = AtomicU64::new(0);
    let capped: Mutex<Option<String>> = Mutex::new(None);
    let chunk = (n / (caps.threads as u64 * 64)).clamp(1, 65536);
    std::thread::scope(|s| {
        for _ in 0..caps.threads.max(1) {
            s.spawn(|| {
                let mut local_classes: HashSet<u64> = HashSet::new();
                loop {
                    let start = next.fetch_add(chunk, Ordering::Relaxed);
                    if start >= n {
                        break;
                    }
                    if t0.elapsed() > caps.wall {
                        let mut c = capped.lock().unwrap();
                        if c.is_none() {
                            *c = Some(format!("wall-clock cap {:?} reached", caps.wall));
                        }
                        break;
                    }
                    let end = (start + chunk).min(n);
                    for i in start..end {
                        let out = eval(i);
                        local_classes.insert(out.class);
                        if !out.viol.is_empty() {
                            let mut f = found.lock().unwrap();
                            for (sig, detail) in out.viol {
                                let e = f.entry(sig).or_insert((i, 0, detail.clone()));
                                e.1 += 1;
                                if i < e.0 {
                                    e.0 = i;
                                    e.2 = detail;
                                }
                            }
                        }
                    }
                    done.fetch_add(end - start, Ordering::Relaxed);
                }
                classes.lock().unwrap().extend(local_classes);
            });
        }
    });
    let mut out = BTreeMap::new();
    for (sig, (idx, count, detail)) in found.into_inner().unwrap() {
        let case = describe(idx);
        out.insert(
            sig.clone(),
            FoundOut {
                prop: prop.to_string(),
                sig: sig.clone(),
                detail: detail.clone(),
                count,
                replay: json!({"property": prop, "signature": sig, "check": prop, "direct": name, "case_index": idx,
                               "case": case, "detail": detail, "occurrences_in_sweep": count}),
            },
        );
    }
    let cap = capped.into_inner().unwrap();
    let executed = done.load(Ordering::Relaxed);
    let nclasses = classes.into_inner().unwrap().len() as u64;
    FamilyReport {
        name: name.to_string(),
        bounds,
        executions: executed,
        states: nclasses.max(1),
        transitions: executed.max(1),
        merged: 0,
        outcomes: nclasses,
        exhaustive: cap.is_none() && executed == n,
        capped: cap,
        samples: vec![
            json!({"family": name, "case_index": 0, "case": describe(0)}),
            json!({"family": name, "case_index": n / 2, "case": describe(n / 2)}),
            json!({"family": name, "case_index": n - 1, "case": describe(n - 1)}),
        ],
        found: out,
        reached: Vec::new(),
        not_reached: Vec::new(),
        wall_s: t0.elapsed().as_secs_f64(),
    }
}

pub fn hash_of<T: std::hash::Hash>(x: &T) -> u64 {
    use std::hash::Hasher;
    let mut h = std::collections::hash_map::DefaultHasher::new();
    x.hash(&mut h);
    h.finish()
}

/// Run `f` catching panics of the client; a panic is a violation of `prop`.
pub fn guarded(prop: &str, f: impl FnOnce() -> CaseOut) -> CaseOut {
    match std::panic::catch_unwind(std::panic::AssertUnwindSafe(f)) {
        Ok(o) => o,
        Err(p) => {
            if p.downcast_ref::<Watchdog>().is_some() {
                return CaseOut {
                    class: 0xDEAD_0001,
                    viol: vec![(format!("{}:WATCHDOG:unbounded-loop", prop), "operation exceeded the I/O watchdog".into())],
                };
            }
            let text = panic_text(&p);
            let class: String = text
                .chars()
                .take(40)
                .map(|c| if c.is_ascii_alphanumeric() { c } else { '_' })
                .collect();
            let rule = if text.starts_with("machinery:") { "MACHINERY" } else { "PANIC" };
            CaseOut {
                class: 0xDEAD_0002,
                viol: vec![(format!("{}:{}:{}", prop, rule, class), format!("client code panicked: {}", text))],
            }
        }
    }
}

// ---------------------------------------------------------------------------------------------
// C08: any inbound bytes
// ---------------------------------------------------------------------------------------------

pub const C08_RX: usize = 24;

#[derive(Debug, Clone, PartialEq)]
enum Ev {
    Delivered(InMsg),
    Progress,
    Err(Res),
    Blocked,
}

/// What the reference says must happen for a byte string fed after CONNACK.
#[derive(Debug)]
struct Expect {
    deliveries: Vec<InMsg>,
    acks: Vec<Vec<u8>>,
    /// how the string must end
    end: End,
    /// the in-flight QoS 1 publish (id 1) gets completed by a PUBACK in the string
    completes: bool,
    reject_code: Option<u8>,
}

#[derive(Debug, PartialEq, Clone)]
enum End {
    /// everything consumed / trailing incomplete packet: the client keeps waiting, alive
    Waiting,
    /// a malformed packet of a listed class: invalid-packet error, dead handle
    Reject(MalClass),
    /// server DISCONNECT: disconnected error, dead handle
    Disconnect,
    /// something the property does not pin down: only "no panic, and if it fails it fails cleanly"
    Either(&'static str),
}

fn listed(c: MalClass) -> bool {
    !matches!(c, MalClass::Other)
}

fn expect_after_connack(bytes: &[u8], rx: usize) -> Expect {
    let mut e = Expect {
        deliveries: vec![],
        acks: vec![],
        end: End::Waiting,
        completes: false,
        reject_code: None,
    };
    let mut i = 0;
    let mut qos2: Vec<u16> = Vec::new();
    while i < bytes.len() {
        // oversize is detected as soon as the fixed header is complete
        match mr::fixed_header(&bytes[i..]) {
            Ok(fh) if fh.total() > rx => {
                e.end = End::Reject(MalClass::TooLarge);
                return e;
            }
            _ => {}
        }
        match mr::classify_server(&bytes[i..]) {
            SClass::Incomplete => return e,
            SClass::Malformed(c, _, _) => {
                e.end = if listed(c) { End::Reject(c) } else { End::Either("malformed-unlisted") };
                return e;
            }
            SClass::Valid(pkt, len) => {
                i += len;
                match pkt {
                    SPacket::Publish {
                        qos,
                        retain,
                        topic,
                        pid,
                        props,
                        payload,
                        ..
                    } => {
                        if props.iter().any(|p| p.id == 0x23) || topic.is_empty() {
                            e.end = End::Either("topic-alias");
                            return e;
                        }
                        let msg = InMsg {
                            qos,
                            retain,
                            topic,
                            payload,
                            props,
                        };
                        match qos {
                            0 => e.deliveries.push(msg),
                            1 => {
                                let pid = pid.unwrap();
                                let in_use = qos2.contains(&pid);
                                if in_use {
                                    e.end = End::Either("qos1-id-in-use");
                                    return e;
                                }
                                e.deliveries.push(msg);
                                e.acks.push(ack_bytes(AckKind::PubAck, pid, 0));
                            }
                            _ => {
                                let pid = pid.unwrap();
                                if !qos2.contains(&pid) {
                                    if qos2.len() >= 8 {
                                        e.end = End::Either("receive-maximum-exceeded");
                                        return e;
                                    }
                                    qos2.push(pid);
                                    e.deliveries.push(msg);
                                }
                                e.acks.push(ack_bytes(AckKind::PubRec, pid, 0));
                            }
                        }
                    }
                    SPacket::PingResp => {}
                    SPacket::Ack { kind, pid, reason, .. } => match kind {
                        AckKind::PubRel => {
                            let known = qos2.iter().position(|p| *p == pid);
                            if let Some(k) = known {
                                qos2.remove(k);
                            }
                            e.acks.push(ack_bytes(AckKind::PubComp, pid, if known.is_some() { 0 } else { 0x92 }));
                        }
                        AckKind::PubAck if pid == 1 && !e.completes => {
                            e.completes = true;
                            if reason >= 0x80 {
                                e.reject_code = Some(reason);
                                e.end = End::Either("after-rejected-error");
                                return e;
                            }
                        }
                        _ if pid == 1 && !e.completes => {
                            e.end = End::Either("wrong-ack-type-for-inflight-id");
                            return e;
                        }
                        _ => {}
                    },
                    SPacket::SubAck { pid, .. } | SPacket::UnsubAck { pid, .. } => {
                        if pid == 1 && !e.completes {
                            e.end = End::Either("wrong-ack-type-for-inflight-id");
                            return e;
                        }
                    }
                    SPacket::Disconnect { .. } => {
                        e.end = End::Disconnect;
                        return e;
                    }
                    SPacket::ConnAck { .. } => {
                        e.end = End::Either("second-connack");
                        return e;
                    }
                    SPacket::Auth { .. } => {
                        e.end = End::Either("auth-not-requested");
                        return e;
                    }
                }
            }
        }
    }
    e
}

fn ack_bytes(kind: AckKind, pid: u16, reason: u8) -> Vec<u8> {
    // what minimq is free to choose (explicit reason / property length) is normalised by decoding
    let first = match kind {
        AckKind::PubAck => 0x40,
        AckKind::PubRec => 0x50,
        AckKind::PubRel => 0x62,
        AckKind::PubComp => 0x70,
    };
    vec![first, (pid >> 8) as u8, pid as u8, reason]
}

fn norm_client_ack(p: &CPacket) -> Option<Vec<u8>> {
    match p {
        CPacket::Ack(a) => Some(ack_bytes(a.kind, a.pid, a.reason)),
        _ => None,
    }
}

pub const CONNACK_PLAIN: [u8; 5] = [0x20, 0x03, 0x00, 0x00, 0x00];

/// Feed `bytes` to a connected session that has one QoS 1 publish (id 1) in flight.
/// `frag`: false = the transport hands over as much as the client asks for, true = one byte per read.
pub fn c08_after_connack(bytes: &[u8], frag: bool) -> CaseOut {
    c08_after_connack_rx(bytes, frag, C08_RX)
}

pub fn c08_after_connack_rx(bytes: &[u8], frag: bool, rx_size: usize) -> CaseOut {
    let out = c08_after_connack_once(bytes, frag, rx_size);
    // A non-canonical remaining length makes the client mis-size the packet; it notices when the
    // bytes it is waiting for have arrived. Give it those bytes before calling that "accepted".
    if out.viol.iter().any(|(s, _)| s.starts_with("C08:malformed-accepted:BadVarint-Blocked")) {
        let mut padded = bytes.to_vec();
        padded.extend_from_slice(&vec![0u8; rx_size]);
        return c08_after_connack_once(&padded, frag, rx_size);
    }
    out
}

fn c08_after_connack_once(bytes: &[u8], frag: bool, rx_size: usize) -> CaseOut {
    guarded("C08", || {
        let bench = Bench::new(true, BrokerCfg::default(), rx_size);
        let mut rx = vec![0u8; rx_size];
        let mut tx = [0u8; 96];
        let cfg = ConfigBuilder::new(Buffers::new(&mut rx, &mut tx))
            .client_id("mcx")
            .unwrap()
            .keepalive_interval(0)
            .session_expiry_interval(100);
        let mut session = Session::new(cfg);
        let (io, id) = bench.io();
        bench.push(id, &CONNACK_PLAIN);
        let mut conn = match bench.run(session.connect(io), id) {
            Some(Ok(c)) => c,
            other => panic!("machinery: plain connect failed: {:?}", other.map(|r| r.map(|_| ()))),
        };
        let op = match bench.run(conn.publish(Publication::bytes("t", b"p").qos(QoS::AtLeastOnce)), id) {
            Some(Ok(Some(op))) => op,
            _ => panic!("machinery: setup publish failed"),
        };
        let setup_written = bench.written(id).len();
        let mut evs: Vec<Ev> = Vec::new();
        let mut fed = 0usize;
        if !frag {
            bench.push(id, bytes);
            fed = bytes.len();
        }
        let mut guard = 0;
        loop {
            guard += 1;
            if guard > 200 + 2 * bytes.len() {
                evs.push(Ev::Err(Res::Other));
                break;
            }
            if frag && bench.inbound_left(id) == 0 && fed < bytes.len() {
                bench.push(id, &bytes[fed..fed + 1]);
                fed += 1;
            }
            let r = bench.run(conn.poll(), id);
            match r {
                None => {
                    if frag && fed < bytes.len() {
                        continue;
                    }
                    evs.push(Ev::Blocked);
                    break;
                }
                Some(Ok(None)) => evs.push(Ev::Progress),
                Some(Ok(Some(m))) => evs.push(Ev::Delivered(inmsg_of(&m))),
                Some(Err(e)) => {
                    let r = Res::from_err(&e);
                    evs.push(Ev::Err(r));
                    if r.fatal() || !conn.is_connected() {
                        break;
                    }
                }
            }
        }
        let alive = conn.is_connected();
        let pending = conn.is_pending(&op);
        let complete = conn.is_complete(&op);
        let written = bench.written(id)[setup_written..].to_vec();
        let exp = expect_after_connack(bytes, rx_size);
        let mut viol: Vec<(String, String)> = Vec::new();
        let mut flag = |rule: &str, ctx: String, detail: String| {
            viol.push((format!("C08:{}:{}", rule, ctx), format!("{} [input {}]", detail, if bytes.len() > 512 { mr::hex_short(bytes) } else { mr::hex(bytes) })))
        };
        let deliveries: Vec<InMsg> = evs
            .iter()
            .filter_map(|e| match e {
                Ev::Delivered(m) => Some(m.clone()),
                _ => None,
            })
            .collect();
        let last = evs.last().cloned().unwrap_or(Ev::Blocked);
        let errors: Vec<Res> = evs
            .iter()
            .filter_map(|e| match e {
                Ev::Err(r) => Some(*r),
                _ => None,
            })
            .collect();
        // acks the client wrote, decoded by the reference decoder
        let mut acks: Vec<Vec<u8>> = Vec::new();
        let mut off = 0;
        let mut wire_ok = true;
        while off < written.len() {
            match mr::decode_client(&written[off..]) {
                Ok((p, n)) => {
                    off += n;
                    match norm_client_ack(&p) {
                        Some(a) => acks.push(a),
                        None => {
                            wire_ok = false;
                            break;
                        }
                    }
                }
                Err(_) => {
                    wire_ok = false;
                    break;
                }
            }
        }
        if !wire_ok && !matches!(exp.end, End::Either(_)) {
            flag("wire", "not-acks".into(), format!("client wrote {} in response", mr::hex(&written)));
        }
        let class_ctx = |c: &End| match c {
            End::Reject(m) => format!("{:?}", m),
            End::Waiting => "waiting".into(),
            End::Disconnect => "disconnect".into(),
            End::Either(w) => (*w).to_string(),
        };
        // deliveries: exact for everything before the deciding packet
        let strict = !matches!(exp.end, End::Either(_));
        if strict {
            if deliveries != exp.deliveries {
                let ctx = if deliveries.len() != exp.deliveries.len() { "count" } else { "content" };
                flag(
                    "valid-not-verbatim",
                    format!("{}-before-{}", ctx, class_ctx(&exp.end)),
                    format!("delivered {:?}, the bytes contain {:?}", deliveries, exp.deliveries),
                );
            }
        } else if deliveries.len() < exp.deliveries.len() || deliveries[..exp.deliveries.len()] != exp.deliveries[..] {
            flag(
                "valid-not-verbatim",
                format!("prefix-before-{}", class_ctx(&exp.end)),
                format!("delivered {:?}, the bytes start with {:?}", deliveries, exp.deliveries),
            );
        }
        match &exp.end {
            End::Waiting => {
                if !matches!(last, Ev::Blocked) || !alive {
                    flag(
                        "valid-rejected",
                        format!("{:?}", errors.last()),
                        format!("every packet is valid but the client ended with {:?} (alive={})", last, alive),
                    );
                } else {
                    if errors.iter().any(|r| Some(*r) != exp.reject_code.map(Res::Rejected)) {
                        flag("valid-error", format!("{:?}", errors), "error reported for valid packets".into());
                    }
                    if acks != exp.acks {
                        flag(
                            "acks",
                            "waiting".into(),
                            format!("acknowledgements written {:?}, owed {:?}", acks, exp.acks),
                        );
                    }
                    if exp.completes != complete {
                        flag(
                            "ack-effect",
                            format!("expected-complete-{}", exp.completes),
                            format!("in-flight publish complete={} pending={}", complete, pending),
                        );
                    }
                }
            }
            End::Reject(class) => {
                if last != Ev::Err(Res::InvalidPacket) {
                    flag(
                        "malformed-accepted",
                        format!("{:?}-{:?}", class, last).replace(['(', ')', ' '], "_"),
                        format!("malformed packet ({:?}) but the client ended with {:?}", class, last),
                    );
                } else {
                    if alive {
                        flag("malformed-handle-alive", format!("{:?}", class), "handle still connected after invalid packet".into());
                    }
                    // never partially acted upon: no ack beyond those owed for the valid packets before it
                    if acks.len() > exp.acks.len() || acks[..] != exp.acks[..acks.len()] {
                        flag(
                            "malformed-acted-upon",
                            format!("{:?}", class),
                            format!("acknowledgements written {:?}, owed before the malformed packet {:?}", acks, exp.acks),
                        );
                    }
                    if exp.completes != complete {
                        flag(
                            "malformed-acted-upon",
                            format!("{:?}-inflight", class),
                            format!("in-flight publish complete={} but expected {}", complete, exp.completes),
                        );
                    }
                }
            }
            End::Disconnect => {
                if last != Ev::Err(Res::Disconnected) || alive {
                    flag(
                        "disconnect",
                        format!("{:?}", last).replace(['(', ')', ' '], "_"),
                        format!("server DISCONNECT but the client ended with {:?} alive={}", last, alive),
                    );
                }
            }
            End::Either(_) => {
                if let Ev::Err(r) = last {
                    if r.fatal() && alive {
                        flag("unclean-failure", format!("{:?}", r), "fatal error but handle still connected".into());
                    }
                }
            }
        }
        CaseOut {
            class: hash_of(&(format!("{:?}", exp.end), deliveries.len(), acks.len(), errors.len(), alive, complete)),
            viol,
        }
    })
}

/// Bytes in place of the CONNACK.
pub fn c08_as_connack(bytes: &[u8]) -> CaseOut {
    c08_as_connack_cfg(bytes, C08_RX, "mcx")
}

/// `client_id` empty = none configured (the broker has to assign one).
pub fn c08_as_connack_cfg(bytes: &[u8], rx_size: usize, client_id: &str) -> CaseOut {
    let out = c08_as_connack_once(bytes, rx_size, client_id);
    if out.viol.iter().any(|(s, _)| s.starts_with("C08:connack-blocked")) && matches!(mr::fixed_header(bytes), Err(mr::Bad::Malformed(MalClass::BadVarint, _))) {
        let mut padded = bytes.to_vec();
        padded.extend_from_slice(&vec![0u8; rx_size]);
        return c08_as_connack_once(&padded, rx_size, client_id);
    }
    out
}

fn c08_as_connack_once(bytes: &[u8], rx_size: usize, client_id: &str) -> CaseOut {
    guarded("C08", || {
        let bench = Bench::new(true, BrokerCfg::default(), rx_size);
        let mut rx = vec![0u8; rx_size];
        let mut tx = [0u8; 96];
        let mut cfg = ConfigBuilder::new(Buffers::new(&mut rx, &mut tx))
            .keepalive_interval(7)
            .session_expiry_interval(100);
        if !client_id.is_empty() {
            cfg = cfg.client_id(client_id).unwrap();
        }
        let mut session = Session::new(cfg);
        let (io, id) = bench.io();
        bench.push(id, bytes);
        let r = bench.run(session.connect(io), id);
        let mut viol: Vec<(String, String)> = Vec::new();
        let mut flag = |rule: &str, ctx: String, detail: String| {
            viol.push((format!("C08:{}:{}", rule, ctx), format!("{} [input {}]", detail, if bytes.len() > 512 { mr::hex_short(bytes) } else { mr::hex(bytes) })))
        };
        let too_large = matches!(mr::fixed_header(bytes), Ok(fh) if fh.total() > rx_size);
        let class = if too_large {
            SClass::Malformed(MalClass::TooLarge, "larger than the receive buffer", 0)
        } else {
            mr::classify_server(bytes)
        };
        let outcome: String;
        match (&class, r) {
            (SClass::Incomplete, None) => outcome = "blocked".into(),
            (SClass::Incomplete, Some(res)) => {
                let res = res.map(|_| ()).map_err(|e| Res::from_err(&e));
                outcome = format!("{:?}", res);
                flag("connack-incomplete", outcome.clone(), format!("incomplete CONNACK but connect returned {:?}", res));
            }
            (_, None) => {
                outcome = "blocked".into();
                flag("connack-blocked", format!("{:?}", std::mem::discriminant(&class)), "complete packet available but connect blocks".into());
            }
            (SClass::Valid(SPacket::ConnAck { session_present, reason, props }, _), Some(res)) => {
                let mut rm = None;
                let mut mp = None;
                let mut mq = None;
                let mut ka = None;
                let mut aid: Option<Vec<u8>> = None;
                for p in props {
                    match (&p.id, &p.val) {
                        (0x21, PVal::U16(v)) => rm = Some(*v),
                        (0x27, PVal::U32(v)) => mp = Some(*v),
                        (0x24, PVal::Byte(v)) => mq = Some(*v),
                        (0x13, PVal::U16(v)) => ka = Some(*v),
                        (0x12, PVal::Str(v)) => aid = Some(v.clone()),
                        _ => {}
                    }
                }
                let auth = props.iter().any(|p| p.id == 0x15 || p.id == 0x16);
                // a conformant broker assigns an identifier only to a client that sent none; to such a client it
                // may assign one of any length
                let id_too_long = !client_id.is_empty() && aid.as_ref().is_some_and(|a| a.len() > 64);
                if *reason != 0 {
                    match res {
                        // (the packet was classified valid, so `reason` is one of the codes MQTT 5 defines for CONNACK)
                        Err(e) if Res::from_err(&e) == Res::Rejected(*reason) => outcome = "rejected".into(),
                        other => {
                            let o = other.map(|_| ()).map_err(|e| Res::from_err(&e));
                            outcome = format!("{:?}", o);
                            flag("connack-failure-code", outcome.clone(), format!("CONNACK reason 0x{:02x} but connect returned {:?}", reason, o));
                        }
                    }
                } else if *session_present || auth || id_too_long {
                    // session present on a clean start / unsolicited authentication / an identifier the
                    // client cannot store: not something a conformant broker sends to this client
                    outcome = format!("either-{}", res.is_ok());
                } else {
                    match res {
                        Ok(conn) => {
                            outcome = "connected".into();
                            let rt = conn.session().verif_runtime();
                            let want_q = rm.unwrap_or(65535).min(8);
                            let want_ka = ka.map(|k| k as u64 * 1000).unwrap_or(7000);
                            let cid = conn.session().verif_client_id().as_bytes().to_vec();
                            let want_id = aid.clone().unwrap_or_else(|| client_id.as_bytes().to_vec());
                            if rt.send_quota != want_q
                                || rt.max_send_quota != want_q
                                || rt.maximum_packet_size != mp
                                || rt.max_qos != mq
                                || rt.keepalive_ms != want_ka
                                || cid != want_id
                                || conn.connect_event() != minimq::ConnectEvent::Connected
                            {
                                flag(
                                    "connack-values",
                                    "readback".into(),
                                    format!(
                                        "CONNACK carries rm={:?} mp={:?} mq={:?} ka={:?} id={:?} but the session holds {:?} id={:?}",
                                        rm, mp, mq, ka, aid, rt, String::from_utf8_lossy(&cid)
                                    ),
                                );
                            }
                        }
                        Err(e) => {
                            let r = Res::from_err(&e);
                            outcome = format!("{:?}", r);
                            let ctx = if aid.as_ref().is_some_and(|a| a.len() > 64) {
                                format!("{}-assigned-client-identifier-longer-than-64-bytes", outcome)
                            } else {
                                outcome.clone()
                            };
                            flag("connack-valid-rejected", ctx, format!("valid CONNACK but connect returned {:?}", r));
                        }
                    }
                }
            }
            (SClass::Valid(SPacket::Disconnect { .. }, _), Some(res)) => {
                let o = res.map(|_| ()).map_err(|e| Res::from_err(&e));
                outcome = format!("{:?}", o);
                if o != Err(Res::Disconnected) {
                    flag("connack-disconnect", outcome.clone(), format!("DISCONNECT during handshake but connect returned {:?}", o));
                }
            }
            (SClass::Valid(_, _), Some(res)) => {
                let o = res.map(|_| ()).map_err(|e| Res::from_err(&e));
                outcome = format!("{:?}", o);
                if o.is_ok() {
                    flag("connack-other-packet", outcome.clone(), "a packet other than CONNACK completed the handshake".into());
                }
            }
            (SClass::Malformed(c, _, _), Some(res)) => {
                let o = res.map(|_| ()).map_err(|e| Res::from_err(&e));
                outcome = format!("{:?}", o);
                if listed(*c) {
                    if o != Err(Res::InvalidPacket) {
                        flag(
                            "malformed-accepted",
                            format!("connack-{:?}-{}", c, outcome).replace(['(', ')', ' '], "_"),
                            format!("malformed handshake answer ({:?}) but connect returned {:?}", c, o),
                        );
                    }
                } else if o.is_ok() {
                    // unlisted malformations (illegal property values, unknown reason codes...): either
                }
            }
        }
        CaseOut {
            class: hash_of(&(outcome, format!("{:?}", std::mem::discriminant(&class)))),
            viol,
        }
    })
}

fn bytes_of_index(mut i: u64, len: usize) -> Vec<u8> {
    let mut v = vec![0u8; len];
    for k in (0..len).rev() {
        v[k] = (i & 0xFF) as u8;
        i >>= 8;
    }
    v
}

/// index -> byte string of length 1..=maxlen (all strings of each length, shorter first)
fn short_string(i: u64, maxlen: usize) -> Vec<u8> {
    let mut i = i;
    for len in 1..=maxlen {
        let n = 1u64 << (8 * len);
        if i < n {
            return bytes_of_index(i, len);
        }
        i -= n;
    }
    unreachable!()
}

fn count_short(maxlen: usize) -> u64 {
    (1..=maxlen).map(|l| 1u64 << (8 * l)).sum()
}

/// Grammar: valid server packets over small field domains.
pub fn c08_grammar() -> Vec<SPacket> {
    let mut v = Vec::new();
    let pids = [1u16, 258, 65535];
    let user = Prop {
        id: 0x26,
        val: PVal::Pair(b"k".to_vec(), "\u{00e9}".as_bytes().to_vec()),
    };
    let reason_str = Prop {
        id: 0x1F,
        val: PVal::Str(b"r".to_vec()),
    };
    let pub_props: Vec<Vec<Prop>> = vec![
        vec![],
        vec![Prop { id: 0x01, val: PVal::Byte(1) }],
        vec![Prop { id: 0x02, val: PVal::U32(7) }],
        vec![Prop { id: 0x03, val: PVal::Str(b"c".to_vec()) }],
        vec![Prop { id: 0x08, val: PVal::Str(b"rt".to_vec()) }],
        vec![Prop { id: 0x09, val: PVal::Bin(vec![0, 0xFF]) }],
        vec![Prop { id: 0x0B, val: PVal::Var(1) }],
        vec![Prop { id: 0x0B, val: PVal::Var(128) }, Prop { id: 0x0B, val: PVal::Var(16384) }],
        vec![user.clone()],
        vec![user.clone(), user.clone()],
        vec![Prop { id: 0x08, val: PVal::Str(b"r".to_vec()) }, Prop { id: 0x09, val: PVal::Bin(vec![1]) }],
    ];
    for qos in 0..=2u8 {
        for retain in [false, true] {
            for dup in [false, true] {
                if qos == 0 && dup {
                    continue;
                }
                for props in &pub_props {
                    for payload in [vec![], vec![0x55]] {
                        for topic in [b"a".to_vec(), "\u{20ac}".as_bytes().to_vec()] {
                            for pid in pids {
                                if qos == 0 && pid != 1 {
                                    continue;
                                }
                                v.push(SPacket::Publish {
                                    dup,
                                    qos,
                                    retain,
                                    topic: topic.clone(),
                                    pid: if qos > 0 { Some(pid) } else { None },
                                    props: props.clone(),
                                    payload: payload.clone(),
                                });
                            }
                        }
                    }
                }
            }
        }
    }
    for kind in [AckKind::PubAck, AckKind::PubRec, AckKind::PubRel, AckKind::PubComp] {
        for pid in pids {
            for reason in 0..=255u8 {
                for form in 0..=2u8 {
                    let p = SPacket::Ack {
                        kind,
                        pid,
                        reason,
                        props: vec![],
                        form,
                    };
                    v.push(p);
                }
            }
            for props in [vec![reason_str.clone()], vec![user.clone()], vec![reason_str.clone(), user.clone()]] {
                v.push(SPacket::Ack {
                    kind,
                    pid,
                    reason: 0,
                    props,
                    form: 2,
                });
            }
        }
    }
    for pid in pids {
        for code in 0..=255u8 {
            v.push(SPacket::SubAck {
                pid,
                props: vec![],
                codes: vec![code],
            });
            v.push(SPacket::UnsubAck {
                pid,
                props: vec![],
                codes: vec![code],
            });
        }
        v.push(SPacket::SubAck {
            pid,
            props: vec![reason_str.clone(), user.clone()],
            codes: vec![0, 1, 2],
        });
        v.push(SPacket::UnsubAck {
            pid,
            props: vec![user.clone()],
            codes: vec![0, 0x11],
        });
    }
    v.push(SPacket::PingResp);
    for reason in 0..=255u8 {
        for form in 0..=2u8 {
            v.push(SPacket::Disconnect {
                reason,
                props: vec![],
                form,
            });
        }
    }
    v.push(SPacket::Disconnect {
        reason: 0x8E,
        props: vec![reason_str.clone(), Prop { id: 0x1C, val: PVal::Str(b"other".to_vec()) }],
        form: 2,
    });
    v
}

/// Packets with boundary values that need a receive buffer of a few hundred bytes.
pub fn c08_wide_grammar() -> Vec<SPacket> {
    let mut v = Vec::new();
    let s = |n: usize| vec![b'x'; n];
    let pr = |id: u8, val: PVal| Prop { id, val };
    let sets: Vec<Vec<Prop>> = vec![
        vec![pr(0x01, PVal::Byte(0))],
        vec![pr(0x02, PVal::U32(0))],
        vec![pr(0x02, PVal::U32(u32::MAX))],
        vec![pr(0x03, PVal::Str(vec![]))],
        vec![pr(0x03, PVal::Str(s(127)))],
        vec![pr(0x03, PVal::Str(s(128)))],
        vec![pr(0x03, PVal::Str("a\u{e9}\u{20ac}\u{1f600}".as_bytes().to_vec()))],
        vec![pr(0x08, PVal::Str(s(1)))],
        vec![pr(0x08, PVal::Str(s(128)))],
        vec![pr(0x09, PVal::Bin(vec![]))],
        vec![pr(0x09, PVal::Bin((0..=255u8).step_by(2).collect()))],
        vec![pr(0x0B, PVal::Var(127))],
        vec![pr(0x0B, PVal::Var(128))],
        vec![pr(0x0B, PVal::Var(16_383))],
        vec![pr(0x0B, PVal::Var(16_384))],
        vec![pr(0x0B, PVal::Var(2_097_151))],
        vec![pr(0x0B, PVal::Var(2_097_152))],
        vec![pr(0x0B, PVal::Var(33_554_431))],
        vec![pr(0x0B, PVal::Var(33_554_432))],
        vec![pr(0x0B, PVal::Var(268_435_455))],
        vec![pr(0x0B, PVal::Var(1)), pr(0x0B, PVal::Var(268_435_455)), pr(0x0B, PVal::Var(16_384))],
        vec![pr(0x26, PVal::Pair(vec![], vec![]))],
        vec![pr(0x26, PVal::Pair(s(64), s(64)))],
        vec![
            pr(0x01, PVal::Byte(1)),
            pr(0x02, PVal::U32(1)),
            pr(0x03, PVal::Str(s(3))),
            pr(0x08, PVal::Str(s(3))),
            pr(0x09, PVal::Bin(vec![0])),
            pr(0x0B, PVal::Var(300)),
            pr(0x26, PVal::Pair(s(1), s(1))),
            pr(0x26, PVal::Pair(s(1), s(2))),
        ],
    ];
    for props in &sets {
        for qos in [0u8, 2] {
            v.push(SPacket::Publish {
                dup: false,
                qos,
                retain: qos == 2,
                topic: b"a/b".to_vec(),
                pid: if qos > 0 { Some(515) } else { None },
                props: props.clone(),
                payload: vec![0x55, 0x00],
            });
        }
    }
    for tlen in [1usize, 127, 128, 200] {
        for plen in [0usize, 127, 128, 250] {
            if tlen + plen > 290 {
                continue;
            }
            v.push(SPacket::Publish {
                dup: false,
                qos: 1,
                retain: false,
                topic: s(tlen),
                pid: Some(2),
                props: vec![],
                payload: vec![0xA5; plen],
            });
        }
    }
    // every byte value as payload and as correlation data (bytes that look like packet headers, UTF-8 lead bytes,
    // 0x00 and 0xFF included)
    v.push(SPacket::Publish { dup: false, qos: 1, retain: false, topic: b"b".to_vec(), pid: Some(0x0A0D), props: vec![], payload: (0..=255u8).collect() });
    v.push(SPacket::Publish { dup: true, qos: 2, retain: true, topic: b"b".to_vec(), pid: Some(0xFFFF), props: vec![pr(0x09, PVal::Bin((0..=255u8).rev().step_by(2).collect())), pr(0x08, PVal::Str(b"r".to_vec()))], payload: vec![0xFF, 0x00, 0x30, 0xC3] });
    // exactly the buffer size, one less, one more (QoS 0, topic "t", no properties)
    for total in [299usize, 300, 301] {
        // fixed header 3 bytes (two-byte remaining length) + 2 + 1 topic + 1 property length
        let plen = total - 3 - 2 - 1 - 1;
        v.push(SPacket::Publish {
            dup: false,
            qos: 0,
            retain: false,
            topic: b"t".to_vec(),
            pid: None,
            props: vec![],
            payload: vec![0x5A; plen],
        });
    }
    for kind in [AckKind::PubAck, AckKind::PubRec, AckKind::PubComp] {
        v.push(SPacket::Ack {
            kind,
            pid: 1,
            reason: 0,
            props: vec![pr(0x1F, PVal::Str(s(200)))],
            form: 2,
        });
    }
    v.push(SPacket::SubAck {
        pid: 1,
        props: vec![pr(0x1F, PVal::Str(s(128))), pr(0x26, PVal::Pair(s(20), s(20)))],
        codes: vec![0, 1, 2, 0x80, 0x87, 0x97],
    });
    v.push(SPacket::Disconnect {
        reason: 0x9C,
        props: vec![pr(0x1F, PVal::Str(s(100))), pr(0x1C, PVal::Str(s(100)))],
        form: 2,
    });
    v
}

/// PUBLISH QoS 0, topic "t", no properties, payload filling the rest of `rem` remaining bytes.
pub fn huge_publish(rem: usize) -> Vec<u8> {
    let mut p = vec![0x30];
    mr::put_varint(&mut p, rem as u32);
    p.extend_from_slice(&[0x00, 0x01, b't', 0x00]);
    p.extend(std::iter::repeat(0x5Au8).take(rem - 4));
    p
}

pub fn c08_wide_connack_grammar() -> Vec<SPacket> {
    let mut v = Vec::new();
    let pr = |id: u8, val: PVal| Prop { id, val };
    let s = |n: usize| vec![b'i'; n];
    for n in [1usize, 23, 36, 64, 65, 128, 200] {
        v.push(SPacket::ConnAck { session_present: false, reason: 0, props: vec![pr(0x12, PVal::Str(s(n)))] });
    }
    let singles = vec![
        pr(0x11, PVal::U32(0)),
        pr(0x11, PVal::U32(u32::MAX)),
        pr(0x21, PVal::U16(1)),
        pr(0x21, PVal::U16(65535)),
        pr(0x24, PVal::Byte(0)),
        pr(0x24, PVal::Byte(1)),
        pr(0x25, PVal::Byte(0)),
        pr(0x25, PVal::Byte(1)),
        pr(0x27, PVal::U32(1)),
        pr(0x27, PVal::U32(u32::MAX)),
        pr(0x22, PVal::U16(0)),
        pr(0x22, PVal::U16(65535)),
        pr(0x1F, PVal::Str(s(200))),
        pr(0x1F, PVal::Str(vec![])),
        pr(0x26, PVal::Pair(s(64), s(64))),
        pr(0x28, PVal::Byte(0)),
        pr(0x28, PVal::Byte(1)),
        pr(0x29, PVal::Byte(0)),
        pr(0x29, PVal::Byte(1)),
        pr(0x2A, PVal::Byte(0)),
        pr(0x2A, PVal::Byte(1)),
        pr(0x13, PVal::U16(0)),
        pr(0x13, PVal::U16(65535)),
        pr(0x1A, PVal::Str(s(128))),
        pr(0x1C, PVal::Str(s(128))),
    ];
    for p in &singles {
        v.push(SPacket::ConnAck { session_present: false, reason: 0, props: vec![pr(0x12, PVal::Str(s(36))), p.clone()] });
    }
    // everything at once
    let mut all = vec![pr(0x12, PVal::Str(s(36)))];
    for p in &singles {
        if !all.iter().any(|q: &Prop| q.id == p.id && p.id != 0x26) {
            all.push(p.clone());
        }
    }
    v.push(SPacket::ConnAck { session_present: false, reason: 0, props: all });
    v
}

pub fn c08_connack_grammar() -> Vec<SPacket> {
    let mut v = Vec::new();
    let single: Vec<Prop> = vec![
        Prop { id: 0x11, val: PVal::U32(60) },
        Prop { id: 0x21, val: PVal::U16(1) },
        Prop { id: 0x21, val: PVal::U16(8) },
        Prop { id: 0x21, val: PVal::U16(9) },
        Prop { id: 0x21, val: PVal::U16(65535) },
        Prop { id: 0x21, val: PVal::U16(0) },
        Prop { id: 0x24, val: PVal::Byte(0) },
        Prop { id: 0x24, val: PVal::Byte(1) },
        Prop { id: 0x25, val: PVal::Byte(0) },
        Prop { id: 0x27, val: PVal::U32(2) },
        Prop { id: 0x27, val: PVal::U32(0xFFFF_FFFF) },
        Prop { id: 0x12, val: PVal::Str(b"assigned".to_vec()) },
        Prop { id: 0x22, val: PVal::U16(0) },
        Prop { id: 0x1F, val: PVal::Str(b"r".to_vec()) },
        Prop { id: 0x26, val: PVal::Pair(b"a".to_vec(), b"b".to_vec()) },
        Prop { id: 0x28, val: PVal::Byte(1) },
        Prop { id: 0x29, val: PVal::Byte(1) },
        Prop { id: 0x2A, val: PVal::Byte(0) },
        Prop { id: 0x13, val: PVal::U16(0) },
        Prop { id: 0x13, val: PVal::U16(30) },
        Prop { id: 0x1A, val: PVal::Str(b"i".to_vec()) },
        Prop { id: 0x1C, val: PVal::Str(b"s".to_vec()) },
    ];
    for sp in [false, true] {
        for reason in 0..=255u8 {
            v.push(SPacket::ConnAck {
                session_present: sp,
                reason,
                props: vec![],
            });
        }
    }
    for p in &single {
        v.push(SPacket::ConnAck {
            session_present: false,
            reason: 0,
            props: vec![p.clone()],
        });
    }
    for a in &single {
        for b in &single {
            if a.id < b.id {
                v.push(SPacket::ConnAck {
                    session_present: false,
                    reason: 0,
                    props: vec![a.clone(), b.clone()],
                });
            }
        }
    }
    v
}

/// Single-byte substitutions of `b` at every position.
fn mutations(b: &[u8]) -> Vec<Vec<u8>> {
    let mut out = vec![b.to_vec()];
    for i in 0..b.len() {
        let mut vals: Vec<u8> = vec![b[i].wrapping_add(1), b[i].wrapping_sub(1), 0x00, 0xFF];
        for bit in 0..8 {
            vals.push(b[i] ^ (1 << bit));
        }
        vals.sort();
        vals.dedup();
        for v in vals {
            if v != b[i] {
                let mut m = b.to_vec();
                m[i] = v;
                out.push(m);
            }
        }
    }
    // truncations and one extra byte
    for cut in 1..b.len() {
        out.push(b[..cut].to_vec());
    }
    let mut longer = b.to_vec();
    longer.push(0);
    out.push(longer);
    out
}

/// Fixed-header forms: every first byte x remaining-length encodings x body lengths.
fn header_forms() -> Vec<Vec<u8>> {
    let mut out = Vec::new();
    let lens: Vec<Vec<u8>> = vec![
        vec![0x00],
        vec![0x01],
        vec![0x02],
        vec![0x03],
        vec![0x04],
        vec![(C08_RX - 3) as u8],
        vec![(C08_RX - 2) as u8],
        vec![(C08_RX - 1) as u8],
        vec![C08_RX as u8],
        vec![0x7F],
        vec![0x80, 0x00],
        vec![0x80, 0x01],
        vec![0x82, 0x00],
        vec![0xFF, 0x7F],
        vec![0x80, 0x80, 0x00],
        vec![0x80, 0x80, 0x01],
        vec![0x80, 0x80, 0x80, 0x00],
        vec![0x80, 0x80, 0x80, 0x01],
        vec![0xFF, 0xFF, 0xFF, 0x7F],
        vec![0x80, 0x80, 0x80, 0x80],
        vec![0xFF, 0xFF, 0xFF, 0xFF],
        vec![0x80, 0x80, 0x80, 0x80, 0x00],
    ];
    for first in 0..=255u8 {
        for l in &lens {
            for body in [0usize, 1, 2, 3, 4, 5, 8] {
                let mut b = vec![first];
                b.extend_from_slice(l);
                b.extend(std::iter::repeat(0x00).take(body));
                out.push(b);
                if body == 4 {
                    let mut b2 = vec![first];
                    b2.extend_from_slice(l);
                    b2.extend_from_slice(&[0x00, 0x01, 0x00, 0x00]);
                    out.push(b2);
                }
            }
        }
    }
    out
}

pub fn c08(tier: Tier, caps: &Caps) -> Vec<FamilyReport> {
    let firsts: Vec<u8> = vec![0x20, 0x30, 0x31, 0x32, 0x33, 0x34, 0x3A, 0x40, 0x50, 0x62, 0x70, 0x90, 0xB0, 0xD0, 0xE0, 0xF0];
    // quick: all strings of length <= 2, all 3-byte strings starting with a plausible first byte
    // thorough: all strings of length <= 3, all 4-byte strings starting with a plausible first byte
    let (full, extra) = if tier == Tier::Quick { (2usize, 3usize) } else { (3, 4) };
    let n_full = count_short(full);
    let n_extra = firsts.len() as u64 * (1u64 << (8 * (extra - 1)));
    let mk = |i: u64| -> Vec<u8> {
        if i < n_full {
            short_string(i, full)
        } else {
            let j = i - n_full;
            let per = 1u64 << (8 * (extra - 1));
            let mut b = vec![firsts[(j / per) as usize]];
            b.extend_from_slice(&bytes_of_index(j % per, extra - 1));
            b
        }
    };
    let mut out = Vec::new();
    let desc = format!(
        "every byte string of length 1..={} and every {}-byte string whose first byte is one of {:02x?}",
        full, extra, firsts
    );
    out.push(sweep(
        "C08-all-short-strings-after-connack",
        "C08",
        n_full + n_extra,
        caps,
        json!({"strings": desc, "rx": C08_RX, "state": "connected, one QoS 1 publish (id 1) in flight", "delivery": "whole"}),
        &|i| c08_after_connack(&mk(i), false),
        &|i| json!({"phase": "after-connack", "bytes": mr::hex(&mk(i)), "fragmented": false}),
    ));
    out.push(sweep(
        "C08-all-short-strings-as-connack",
        "C08",
        n_full + n_extra,
        caps,
        json!({"strings": desc, "rx": C08_RX, "phase": "in place of the CONNACK"}),
        &|i| c08_as_connack(&mk(i)),
        &|i| json!({"phase": "as-connack", "bytes": mr::hex(&mk(i))}),
    ));
    let forms = header_forms();
    out.push(sweep(
        "C08-fixed-header-and-varint-forms",
        "C08",
        forms.len() as u64 * 3,
        caps,
        json!({"forms": "every first byte x 22 remaining-length encodings (canonical, non-canonical, oversized, 5-byte) x 8 body lengths; after CONNACK whole, after CONNACK byte-by-byte, and in place of CONNACK", "rx": C08_RX}),
        &|i| {
            let b = &forms[(i / 3) as usize];
            match i % 3 {
                0 => c08_after_connack(b, false),
                1 => c08_after_connack(b, true),
                _ => c08_as_connack(b),
            }
        },
        &|i| {
            let phase = ["after-connack", "after-connack-bytewise", "as-connack"][(i % 3) as usize];
            json!({"phase": phase, "bytes": mr::hex(&forms[(i / 3) as usize])})
        },
    ));
    // grammar + mutations
    let mut gram: Vec<Vec<u8>> = Vec::new();
    for p in c08_grammar() {
        let b = p.encode();
        if tier == Tier::Quick {
            gram.push(b);
        } else {
            gram.extend(mutations(&b));
        }
    }
    // in quick mode mutate a thinner slice of the grammar
    if tier == Tier::Quick {
        let base: Vec<Vec<u8>> = gram.iter().step_by(17).cloned().collect();
        for b in base {
            gram.extend(mutations(&b));
        }
    }
    // pairs: two packets back to back (sequencing, buffer reuse)
    let some: Vec<Vec<u8>> = c08_grammar().iter().step_by(97).map(|p| p.encode()).collect();
    for a in &some {
        for b in &some {
            let mut ab = a.clone();
            ab.extend_from_slice(b);
            gram.push(ab);
        }
    }
    out.push(sweep(
        "C08-grammar-and-single-byte-mutations",
        "C08",
        gram.len() as u64 * 2,
        caps,
        json!({"grammar": "PUBLISH (qos x retain x dup x 11 property sets x payloads x topics x ids), PUBACK/PUBREC/PUBREL/PUBCOMP (3 ids x 256 reason bytes x 3 forms, property sets), SUBACK/UNSUBACK (256 codes), PINGRESP, DISCONNECT (256 reasons x 3 forms); each with every single-byte substitution from {+1,-1,00,FF, each bit flip} at every position, every truncation, one trailing byte (thorough: all; quick: every 17th packet); pairs of packets back to back; each case whole and byte-by-byte", "rx": C08_RX}),
        &|i| c08_after_connack(&gram[(i / 2) as usize], i % 2 == 1),
        &|i| json!({"phase": "after-connack", "bytes": mr::hex(&gram[(i / 2) as usize]), "fragmented": i % 2 == 1}),
    ));
    // variable byte integers inside the packet: every string of 1..=4 bytes over a boundary alphabet as
    // the value of a Subscription Identifier, and every such string as the property-block length
    let alphabet: [u8; 10] = [0x00, 0x01, 0x0F, 0x10, 0x7F, 0x80, 0x81, 0x8F, 0x90, 0xFF];
    let mut vb: Vec<Vec<u8>> = Vec::new();
    for len in 1..=4usize {
        let n = alphabet.len().pow(len as u32);
        for mut i in 0..n {
            let mut v = Vec::with_capacity(len);
            for _ in 0..len {
                v.push(alphabet[i % alphabet.len()]);
                i /= alphabet.len();
            }
            vb.push(v);
        }
    }
    let mut vcases: Vec<Vec<u8>> = Vec::new();
    for v in &vb {
        // PUBLISH qos 0, topic "a", properties = Subscription Identifier <v>, payload 0x55
        let mut body = vec![0x00, 0x01, b'a', (1 + v.len()) as u8, 0x0B];
        body.extend_from_slice(v);
        body.push(0x55);
        let mut p = vec![0x30, body.len() as u8];
        p.extend_from_slice(&body);
        vcases.push(p);
        // the same string as the property-block length in front of one Payload Format Indicator
        let mut body = vec![0x00, 0x01, b'a'];
        body.extend_from_slice(v);
        body.extend_from_slice(&[0x01, 0x01, 0x55]);
        let mut p = vec![0x30, body.len() as u8];
        p.extend_from_slice(&body);
        vcases.push(p);
    }
    out.push(sweep(
        "C08-variable-byte-integers-inside-packets",
        "C08",
        vcases.len() as u64 * 2,
        caps,
        json!({"cases": "every string of 1..=4 bytes over {00,01,0F,10,7F,80,81,8F,90,FF} (11110 strings: all band boundaries up to 268435455, overlong, unterminated and oversized forms) as the value of a Subscription Identifier of an inbound PUBLISH and as its property-block length; each whole and byte-by-byte", "rx": C08_RX}),
        &|i| c08_after_connack(&vcases[(i / 2) as usize], i % 2 == 1),
        &|i| json!({"phase": "after-connack", "bytes": mr::hex(&vcases[(i / 2) as usize]), "fragmented": i % 2 == 1}),
    ));
    // boundary values that do not fit the small receive buffer: a 300-byte buffer
    const WIDE_RX: usize = 300;
    let mut wide: Vec<Vec<u8>> = Vec::new();
    for p in c08_wide_grammar() {
        let b = p.encode();
        if tier == Tier::Quick {
            wide.push(b);
        } else {
            wide.extend(mutations(&b));
        }
    }
    out.push(sweep(
        "C08-boundary-values-in-a-300-byte-buffer",
        "C08",
        wide.len() as u64 * 2,
        caps,
        json!({"grammar": "PUBLISH with every property a broker may attach at its boundary values (0 / maximum integers, empty / 1 / 127 / 128-byte strings and binary data, 1..4-byte UTF-8 characters, empty user-property key and value, several subscription identifiers), topics of 1, 127, 128 and 200 bytes, payloads of 0, 127, 128 and 250 bytes, packets of exactly the buffer size and one byte more; acknowledgements with long reason strings; thorough: every single-byte substitution, truncation and one trailing byte of each; each whole and byte-by-byte", "rx": WIDE_RX}),
        &|i| c08_after_connack_rx(&wide[(i / 2) as usize], i % 2 == 1, WIDE_RX),
        &|i| json!({"phase": "after-connack", "bytes": mr::hex(&wide[(i / 2) as usize]), "fragmented": i % 2 == 1, "rx": WIDE_RX}),
    ));
    // a multi-byte character at every byte offset of every string a broker may send
    let mut mb: Vec<Vec<u8>> = Vec::new();
    // (U+FEFF, the no-break space, a plain space and U+FFFD are ordinary characters of an MQTT string: nothing may be
    // trimmed or replaced, at the start, in the middle or at the end)
    for (ci, ch) in ["\u{e9}", "\u{20ac}", "\u{1f600}", "\u{feff}", "\u{a0}", " ", "\u{fffd}"].into_iter().enumerate() {
        for k in 0..=72usize {
            if ci >= 3 && k > 8 && k < 70 {
                continue;
            }
            let mut st = vec![b'a'; k];
            st.extend_from_slice(ch.as_bytes());
            if !(ci >= 3 && k % 2 == 1) {
                st.extend_from_slice(b"zz");
            }
            let pr = |id: u8, val: PVal| Prop { id, val };
            let publish = |topic: Vec<u8>, props: Vec<Prop>, qos: u8| SPacket::Publish { dup: false, qos, retain: false, topic, pid: if qos > 0 { Some(7) } else { None }, props, payload: vec![0x31] };
            mb.push(publish(st.clone(), vec![], (k % 3) as u8).encode());
            mb.push(publish(b"t".to_vec(), vec![pr(0x03, PVal::Str(st.clone()))], 0).encode());
            mb.push(publish(b"t".to_vec(), vec![pr(0x08, PVal::Str(st.clone()))], 1).encode());
            mb.push(publish(b"t".to_vec(), vec![pr(0x26, PVal::Pair(st.clone(), b"v".to_vec()))], 2).encode());
            mb.push(publish(b"t".to_vec(), vec![pr(0x26, PVal::Pair(b"k".to_vec(), st.clone()))], 0).encode());
            mb.push(SPacket::Ack { kind: AckKind::PubAck, pid: 1, reason: 0, props: vec![pr(0x1F, PVal::Str(st.clone()))], form: 2 }.encode());
            mb.push(SPacket::SubAck { pid: 1, props: vec![pr(0x1F, PVal::Str(st.clone()))], codes: vec![0] }.encode());
            mb.push(SPacket::Disconnect { reason: 0x8B, props: vec![pr(0x1F, PVal::Str(st.clone()))], form: 2 }.encode());
            mb.push(SPacket::Disconnect { reason: 0x9C, props: vec![pr(0x1C, PVal::Str(st.clone()))], form: 2 }.encode());
        }
    }
    out.push(sweep(
        "C08-multi-byte-characters-at-every-offset",
        "C08",
        mb.len() as u64 * 2,
        caps,
        json!({"cases": "a 2-, 3- and 4-byte UTF-8 character at every byte offset 0..=72 (and U+FEFF, U+00A0, a space, U+FFFD at the start, near it and at the end) of: PUBLISH topic, Content Type, Response Topic, User Property key and value, Reason String of PUBACK / SUBACK / DISCONNECT, Server Reference of DISCONNECT; each whole and byte-by-byte", "rx": WIDE_RX}),
        &|i| c08_after_connack_rx(&mb[(i / 2) as usize], i % 2 == 1, WIDE_RX),
        &|i| json!({"phase": "after-connack", "bytes": mr::hex(&mb[(i / 2) as usize]), "fragmented": i % 2 == 1, "rx": WIDE_RX}),
    ));
    // property identifiers are variable byte integers: every canonical two-byte (and some three-byte) identifier whose
    // LOW BYTE is a defined property, followed by a well-formed value of that property - all undefined, all malformed
    let mut wide_ids: Vec<(Vec<u8>, bool)> = Vec::new();
    for id in mr::ALL_PROP_IDS {
        let value: Vec<u8> = match mr::prop_type(id as u32).unwrap() {
            mr::PType::Byte => vec![1],
            mr::PType::U16 => vec![0, 5],
            mr::PType::U32 => vec![0, 0, 0, 5],
            mr::PType::Var => vec![5],
            mr::PType::Str => vec![0, 1, b'a'],
            mr::PType::Bin => vec![0, 1, 7],
            mr::PType::Pair => vec![0, 1, b'k', 0, 1, b'v'],
        };
        for m in (1u32..=63).chain([64, 65, 255, 256, 8191]) {
            let v = id as u32 + 256 * m;
            let mut block = Vec::new();
            mr::put_varint(&mut block, v);
            block.extend_from_slice(&value);
            let mut props = Vec::new();
            mr::put_varint(&mut props, block.len() as u32);
            props.extend_from_slice(&block);
            // PUBLISH QoS 0, topic "t", payload "x"
            let mut body = vec![0x00, 0x01, b't'];
            body.extend_from_slice(&props);
            body.push(b'x');
            let mut pk = vec![0x30];
            mr::put_varint(&mut pk, body.len() as u32);
            pk.extend_from_slice(&body);
            wide_ids.push((pk, false));
            // PUBACK for identifier 1 with a property block
            let mut body = vec![0x00, 0x01, 0x00];
            body.extend_from_slice(&props);
            let mut pk = vec![0x40];
            mr::put_varint(&mut pk, body.len() as u32);
            pk.extend_from_slice(&body);
            wide_ids.push((pk, false));
            // CONNACK
            let mut body = vec![0x00, 0x00];
            body.extend_from_slice(&props);
            let mut pk = vec![0x20];
            mr::put_varint(&mut pk, body.len() as u32);
            pk.extend_from_slice(&body);
            wide_ids.push((pk, true));
        }
    }
    out.push(sweep(
        "C08-property-identifiers-of-more-than-one-byte",
        "C08",
        wide_ids.len() as u64,
        caps,
        json!({"cases": "for each of the 27 defined property identifiers P and m in 1..=63, 64, 65, 255, 256, 8191: the identifier P + 256*m (a canonical two- or three-byte variable byte integer) followed by a well-formed value of P, in a PUBLISH, a PUBACK and a CONNACK; none of these identifiers is defined", "rx": C08_RX}),
        &|i| {
            let (b, as_connack) = &wide_ids[i as usize];
            if *as_connack { c08_as_connack(b) } else { c08_after_connack(b, false) }
        },
        &|i| {
            let (b, as_connack) = &wide_ids[i as usize];
            json!({"phase": if *as_connack { "as-connack" } else { "after-connack" }, "bytes": mr::hex(b), "fragmented": false})
        },
    ));
    // many of something in one packet (a 4096-byte receive buffer)
    const MANY_RX: usize = 4096;
    let mut many: Vec<Vec<u8>> = Vec::new();
    {
        let pr = |id: u8, val: PVal| Prop { id, val };
        let publish = |props: Vec<Prop>, qos: u8| SPacket::Publish { dup: false, qos, retain: false, topic: b"m".to_vec(), pid: if qos > 0 { Some(7) } else { None }, props, payload: vec![0x31, 0x32] };
        for n in [2usize, 8, 9, 16, 17, 50, 120] {
            many.push(publish((0..n).map(|i| pr(0x26, PVal::Pair(format!("k{}", i % 3).into_bytes(), format!("v{}", i).into_bytes()))).collect(), (n % 3) as u8).encode());
            many.push(publish((0..n).map(|i| pr(0x0B, PVal::Var(1 + (i as u32) * 131))).collect(), ((n + 1) % 3) as u8).encode());
            let mut mixed: Vec<Prop> = vec![pr(0x01, PVal::Byte(1)), pr(0x08, PVal::Str(b"r/t".to_vec()))];
            mixed.extend((0..n).map(|i| if i % 2 == 0 { pr(0x26, PVal::Pair(b"k".to_vec(), vec![b'v'; i % 7])) } else { pr(0x0B, PVal::Var(i as u32 + 1)) }));
            mixed.push(pr(0x09, PVal::Bin(vec![9, 9])));
            many.push(publish(mixed, 1).encode());
        }
        for n in [1usize, 8, 9, 127, 128, 300, 1000] {
            many.push(SPacket::SubAck { pid: 1, props: vec![], codes: (0..n).map(|i| [0u8, 1, 2, 0x80, 0x87][i % 5]).collect() }.encode());
            many.push(SPacket::UnsubAck { pid: 1, props: vec![], codes: (0..n).map(|i| [0u8, 0x11, 0x80][i % 3]).collect() }.encode());
        }
        // many well-formed properties and then one that is not (string cut short, undefined identifier, invalid
        // UTF-8, a second Payload Format Indicator's value missing): raw bytes behind an encoded prefix
        for n in [0usize, 1, 15, 16, 17, 31, 32, 33, 63, 64, 65, 100] {
            for (ti, tail) in [&[0x26u8, 0x00, 0x01, b'k', 0x00, 0x05, b'v'][..], &[0x7E, 0x00][..], &[0x03, 0x00, 0x02, 0xC3, 0x28][..], &[0x26, 0x00, 0x01][..], &[0x0B, 0x80, 0x80, 0x80, 0x80, 0x01][..]].iter().enumerate() {
                for qos in [0u8, 1, 2] {
                    if qos != 1 && ti > 1 {
                        continue;
                    }
                    let mut pb = Vec::new();
                    mr::put_props(&mut pb, &(0..n).map(|i| if i % 3 == 2 { pr(0x0B, PVal::Var(i as u32 + 1)) } else { pr(0x26, PVal::Pair(b"k".to_vec(), format!("{}", i).into_bytes())) }).collect::<Vec<_>>());
                    // `pb` = length prefix + properties; re-encode the prefix for the longer block
                    let plen_len = (1..=4usize).find(|k| pb.len() >= *k && mr::varint_len((pb.len() - k) as u32) == *k).unwrap();
                    let body_props = {
                        let inner = &pb[plen_len..];
                        let mut v = Vec::new();
                        mr::put_varint(&mut v, (inner.len() + tail.len()) as u32);
                        v.extend_from_slice(inner);
                        v.extend_from_slice(tail);
                        v
                    };
                    let mut body = vec![0x00, 0x01, b'm'];
                    if qos > 0 {
                        body.extend_from_slice(&[0x00, 0x07]);
                    }
                    body.extend_from_slice(&body_props);
                    body.extend_from_slice(b"12");
                    let mut pkt = vec![0x30 | (qos << 1)];
                    mr::put_varint(&mut pkt, body.len() as u32);
                    pkt.extend_from_slice(&body);
                    many.push(pkt);
                }
            }
        }
        many.push(SPacket::Ack { kind: AckKind::PubAck, pid: 1, reason: 0x10, props: (0..40).map(|i| pr(0x26, PVal::Pair(b"k".to_vec(), format!("{}", i).into_bytes()))).collect(), form: 2 }.encode());
        many.push(SPacket::Disconnect { reason: 0x8B, props: (0..40).map(|i| pr(0x26, PVal::Pair(b"k".to_vec(), format!("{}", i).into_bytes()))).collect(), form: 2 }.encode());
    }
    // CONNACKs with many user properties around the values that matter
    let mut many_ca: Vec<Vec<u8>> = Vec::new();
    {
        let pr = |id: u8, val: PVal| Prop { id, val };
        for n in [1usize, 7, 8, 9, 15, 16, 17, 26, 27, 28, 31, 32, 33, 50, 63, 64, 65, 120, 255, 256, 257] {
            for place in 0..3u8 {
                let users = |m: usize| (0..m).map(|i| pr(0x26, PVal::Pair(format!("k{}", i % 4).into_bytes(), format!("{}", i).into_bytes()))).collect::<Vec<_>>();
                let matter = vec![pr(0x21, PVal::U16(2)), pr(0x27, PVal::U32(90)), pr(0x24, PVal::Byte(1)), pr(0x13, PVal::U16(33))];
                let props: Vec<Prop> = match place {
                    0 => users(n).into_iter().chain(matter).collect(),
                    1 => matter.into_iter().chain(users(n)).collect(),
                    _ => {
                        let mut v = users(n / 2);
                        v.extend(matter);
                        v.extend(users(n - n / 2));
                        v
                    }
                };
                many_ca.push(SPacket::ConnAck { session_present: false, reason: 0, props: props.clone() }.encode());
                if place == 0 {
                    many_ca.push(SPacket::ConnAck { session_present: false, reason: 0x87, props }.encode());
                }
            }
        }
    }
    out.push(sweep(
        "C08-connack-with-many-user-properties",
        "C08",
        many_ca.len() as u64,
        caps,
        json!({"cases": "CONNACK (accepting, and refusing with 0x87) carrying 1..257 user properties (repeated keys) in front of, behind and around Receive Maximum, Maximum Packet Size, Maximum QoS and Server Keep Alive", "rx": MANY_RX}),
        &|i| c08_as_connack_cfg(&many_ca[i as usize], MANY_RX, "mcx"),
        &|i| json!({"phase": "as-connack", "bytes": mr::hex(&many_ca[i as usize]), "rx": MANY_RX, "client_id": "mcx"}),
    ));
    out.push(sweep(
        "C08-many-properties-and-reason-codes-in-one-packet",
        "C08",
        many.len() as u64 * 2,
        caps,
        json!({"cases": "PUBLISH with 2..120 user properties (repeated keys), with 2..120 subscription identifiers, and mixed with once-only properties; SUBACK / UNSUBACK with 1..1000 reason codes; PUBACK and DISCONNECT with 40 user properties; PUBLISH with 0..100 well-formed properties followed by a malformed one (value cut short, undefined identifier, invalid UTF-8, over-long variable byte integer); each whole and byte-by-byte", "rx": MANY_RX}),
        &|i| c08_after_connack_rx(&many[(i / 2) as usize], i % 2 == 1, MANY_RX),
        &|i| json!({"phase": "after-connack", "bytes": mr::hex(&many[(i / 2) as usize]), "fragmented": i % 2 == 1, "rx": MANY_RX}),
    ));
    // what a reason byte MEANS to the application: the variant the crate decodes each byte to, against the name MQTT 5
    // gives that value (a table consistent with itself in both directions would pass every byte-level comparison)
    out.push(sweep(
        "C08-reason-codes-by-name",
        "C08",
        256,
        caps,
        json!({"cases": "every byte 0..=255 decoded with ReasonCode::from: the variant must be the one MQTT 5 (table 2-6) names for that value, Unknown for undefined values; and the variant must convert back to the same byte"}),
        &|i| c08_reason_code(i as u8),
        &|i| json!({"phase": "reason-code", "byte": i}),
    ));
    // the four-byte band of the remaining length: a receive buffer of just over 2 MiB
    const HUGE_RX: usize = 2_097_152 + 64;
    let huge_rems = [2_097_151usize, 2_097_152, 2_097_153, 2_097_200];
    let huge: Vec<Vec<u8>> = huge_rems.iter().map(|rem| huge_publish(*rem)).collect();
    out.push(sweep(
        "C08-four-byte-remaining-length-in-a-2-MiB-buffer",
        "C08",
        huge.len() as u64,
        caps,
        json!({"cases": "inbound QoS 0 PUBLISH with remaining length 2097151 (largest three-byte form), 2097152, 2097153 and 2097200 (four-byte forms) delivered whole into a receive buffer of 2097216 bytes", "rx": HUGE_RX}),
        &|i| c08_after_connack_rx(&huge[i as usize], false, HUGE_RX),
        // (the case is described by its remaining length: the packet itself is 2 MiB)
        &|i| json!({"phase": "after-connack-huge", "remaining": huge_rems[i as usize], "rx": HUGE_RX}),
    ));
    // CONNACK boundary values for a client that configured no identifier, 300-byte buffer
    let mut wc: Vec<Vec<u8>> = Vec::new();
    for p in c08_wide_connack_grammar() {
        let b = p.encode();
        if tier == Tier::Quick {
            wc.push(b);
        } else {
            wc.extend(mutations(&b));
        }
    }
    out.push(sweep(
        "C08-connack-boundary-values-no-client-id-configured",
        "C08",
        wc.len() as u64,
        caps,
        json!({"grammar": "CONNACK for a client that sent an empty identifier: Assigned Client Identifier of 1, 23, 36, 64, 65, 128 and 200 bytes; every CONNACK property at its smallest and largest legal value; long reason string, response information, server reference, user properties; thorough: every single-byte substitution, truncation and one trailing byte", "rx": WIDE_RX, "client_id": ""}),
        &|i| c08_as_connack_cfg(&wc[i as usize], WIDE_RX, ""),
        &|i| json!({"phase": "as-connack", "bytes": mr::hex(&wc[i as usize]), "rx": WIDE_RX, "client_id": ""}),
    ));
    let mut cgram: Vec<Vec<u8>> = Vec::new();
    for p in c08_connack_grammar() {
        let b = p.encode();
        cgram.extend(mutations(&b));
    }
    out.push(sweep(
        "C08-connack-grammar-and-mutations",
        "C08",
        cgram.len() as u64,
        caps,
        json!({"grammar": "CONNACK: session present x 256 reason bytes; 22 property values alone and in pairs; every single-byte substitution, truncation and one trailing byte", "rx": C08_RX}),
        &|i| c08_as_connack(&cgram[i as usize]),
        &|i| json!({"phase": "as-connack", "bytes": mr::hex(&cgram[i as usize])}),
    ));
    out
}

pub fn c08_reason_code(b: u8) -> CaseOut {
    guarded("C08", || {
        let named = crate::d_c09::named_reasons();
        let got = minimq::ReasonCode::from(b);
        let mut viol = Vec::new();
        match named.iter().find(|(_, _, v)| *v == b) {
            Some((name, variant, _)) => {
                if got != *variant {
                    viol.push((format!("C08:reason-code-misnamed:{:#04x}", b), format!("byte {:#04x} is \"{}\" in MQTT 5 but decodes to {:?}", b, name, got)));
                }
                if u8::from(*variant) != b {
                    viol.push((format!("C08:reason-code-misnamed:{:#04x}", b), format!("\"{}\" encodes to {:#04x}", name, u8::from(*variant))));
                }
            }
            None => {
                if got != minimq::ReasonCode::Unknown {
                    viol.push((format!("C08:reason-code-misnamed:{:#04x}", b), format!("MQTT 5 defines no reason code {:#04x} but it decodes to {:?}", b, got)));
                }
            }
        }
        CaseOut { class: hash_of(&(named.iter().any(|(_, _, v)| *v == b))), viol }
    })
}

pub fn replay_case(v: &Value) -> i32 {
    let name = v["direct"].as_str().unwrap_or("");
    let case = &v["case"];
    let sig = v["signature"].as_str().unwrap_or("");
    let out = if name.starts_with("C08") {
        let bytes = if case["phase"].as_str() == Some("after-connack-huge") {
            huge_publish(case["remaining"].as_u64().unwrap_or(4) as usize)
        } else {
            unhex(case["bytes"].as_str().unwrap_or(""))
        };
        match case["phase"].as_str().unwrap_or("") {
            "reason-code" => c08_reason_code(case["byte"].as_u64().unwrap_or(0) as u8),
            "as-connack" => c08_as_connack_cfg(
                &bytes,
                case["rx"].as_u64().map(|v| v as usize).unwrap_or(C08_RX),
                case["client_id"].as_str().unwrap_or("mcx"),
            ),
            "after-connack-bytewise" => c08_after_connack(&bytes, true),
            _ => c08_after_connack_rx(
                &bytes,
                case["fragmented"].as_bool().unwrap_or(false),
                case["rx"].as_u64().map(|v| v as usize).unwrap_or(C08_RX),
            ),
        }
    } else {
        match crate::direct2::replay_case(name, case) {
            Some(o) => o,
            None => {
                eprintln!("unknown direct family {}", name);
                return 2;
            }
        }
    };
    println!("case: {}", case);
    for (s, d) in &out.viol {
        println!("violation {}: {}", s, d);
    }
    if out.viol.iter().any(|(s, _)| s == sig) {
        println!("REPRODUCED {}", sig);
        1
    } else {
        println!("not reproduced: {}", sig);
        0
    }
}

pub fn unhex(s: &str) -> Vec<u8> {
    (0..s.len() / 2)
        .map(|i| u8::from_str_radix(&s[2 * i..2 * i + 2], 16).unwrap_or(0))
        .collect()
}

// keep the type used
#[allow(unused)]
fn _unused(_: Option<Connection<'_, '_, VirtualIo>>) {}
