use crate::direct::CaseOut;
use crate::explore::Caps;
use crate::families::Tier;
use crate::report::FamilyReport;
use serde_json::Value;
pub fn run(_tier: Tier, _caps: &Caps) -> Vec<FamilyReport> { vec![] }
pub fn replay(_name: &str, _case: &Value) -> Option<CaseOut> { None }
