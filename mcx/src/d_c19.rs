//! C19: invalid requests are refused locally without trace; legal properties are accepted; QoS cap.
use crate::direct::{guarded, hash_of, sweep, CaseOut};
use crate::direct2::*;
use crate::explore::Caps;
use crate::families::Tier;
use crate::mqtt_ref::{self as mr, CPacket, PType, PVal, Prop, ALL_PROP_IDS};
use crate::report::FamilyReport;
use crate::world::{Res, VirtualIo};
use minimq::{Connection, Disconnect, Op, Publication, QoS, TopicFilter};
use serde::{Deserialize, Serialize};
use serde_json::{json, Value};

fn flag(viol: &mut Vec<(String, String)>, rule: &str, ctx: &str, detail: String) {
    viol.push((format!("C19:{}:{}", rule, ctx), detail));
}

#[derive(Copy, Clone, PartialEq, Eq, Debug)]
enum Want {
    Accept,
    Reject,
    Either,
}

const CTX_NAMES: [&str; 5] = ["publish", "subscribe", "unsubscribe", "disconnect", "will"];

/// MQTT 5 sections 3.1.3.2 (will), 3.3.2.3 (PUBLISH), 3.8.2.1, 3.10.2.1, 3.14.2.2: what a *client* may attach.
fn want(ctx: u8, p: &Prop) -> Want {
    let value_ok = match (p.id, &p.val) {
        (0x01, PVal::Byte(v)) => *v <= 1,
        (0x0B, PVal::Var(v)) => *v >= 1 && *v <= 268_435_455,
        (0x23, PVal::U16(v)) => *v != 0,
        _ => true,
    };
    let allowed = match ctx {
        0 => matches!(p.id, 0x01 | 0x02 | 0x03 | 0x08 | 0x09 | 0x26 | 0x23),
        1 => matches!(p.id, 0x0B | 0x26),
        2 => matches!(p.id, 0x26),
        3 => matches!(p.id, 0x11 | 0x1F | 0x26 | 0x1C),
        _ => matches!(p.id, 0x18 | 0x01 | 0x02 | 0x03 | 0x08 | 0x09 | 0x26),
    };
    if !allowed || !value_ok {
        return Want::Reject;
    }
    // a topic alias is only legal up to the Topic Alias Maximum the broker announced (none here);
    // a server reference in a client DISCONNECT is legal but meaningless; response topics must not
    // contain wildcards (not exercised): the property statement does not pin these down
    if (ctx == 0 && p.id == 0x23) || (ctx == 3 && p.id == 0x1C) {
        return Want::Either;
    }
    Want::Accept
}

fn values_for(id: u8) -> Vec<PVal> {
    match mr::prop_type(id as u32).unwrap() {
        PType::Byte => vec![PVal::Byte(0), PVal::Byte(1), PVal::Byte(2), PVal::Byte(255)],
        PType::U16 => vec![PVal::U16(0), PVal::U16(1), PVal::U16(65535)],
        PType::U32 => vec![PVal::U32(0), PVal::U32(1), PVal::U32(0xFFFF_FFFF)],
        PType::Var => vec![PVal::Var(0), PVal::Var(1), PVal::Var(268_435_455), PVal::Var(268_435_456)],
        PType::Str => vec![PVal::Str(vec![]), PVal::Str(b"x".to_vec()), PVal::Str(vec![b's'; 40])],
        PType::Bin => vec![PVal::Bin(vec![]), PVal::Bin(vec![0]), PVal::Bin(vec![0xFE; 40])],
        PType::Pair => vec![PVal::Pair(vec![], vec![]), PVal::Pair(b"k".to_vec(), b"v".to_vec())],
    }
}

#[derive(Clone, Debug, Serialize, Deserialize)]
pub struct PropCase {
    pub ctx: u8,
    pub id: u8,
    pub value: usize,
    /// 0 fresh connection, 1 requests in flight, 2 send quota exhausted, 3 dead handle, 4 table of requests in flight full
    pub state: u8,
    /// QoS of the publish (ctx 0)
    pub qos: u8,
    /// a second, legal property in front of / behind the one under test (0 none, 1 before, 2 after);
    /// publish only: 3 = `.properties(..).correlate(..)`, 4 = `.correlate(..).properties(..)`;
    /// 5 = three legal companions around the one under test
    pub companion: u8,
}

#[derive(Clone, Debug, PartialEq)]
struct Snapshot {
    quiescent: bool,
    statuses: Vec<(bool, bool, bool)>,
    send_quota: u16,
    retained: usize,
    pending_release: usize,
    pending_control: usize,
    connected: bool,
    can_publish: (bool, bool, bool),
}

fn snapshot(conn: &Connection<'_, '_, VirtualIo>, handles: &[Op]) -> Snapshot {
    let rt = conn.session().verif_runtime();
    Snapshot {
        quiescent: conn.session().is_publish_quiescent(),
        statuses: handles.iter().map(|h| (conn.is_pending(h), conn.is_complete(h), conn.is_invalidated(h))).collect(),
        send_quota: rt.send_quota,
        retained: rt.retained,
        pending_release: rt.pending_release,
        pending_control: rt.pending_control,
        connected: conn.is_connected(),
        can_publish: (conn.can_publish(QoS::AtMostOnce), conn.can_publish(QoS::AtLeastOnce), conn.can_publish(QoS::ExactlyOnce)),
    }
}

/// Bring the connection into `state`; returns handles issued on the way.
fn prepare(bench: &crate::bench::Bench, conn: &mut Connection<'_, '_, VirtualIo>, id: usize, state: u8) -> Vec<Op> {
    let mut handles = Vec::new();
    if state == 1 || state == 2 {
        if let Some(Ok(Some(h))) = bench.run(conn.publish(Publication::bytes("t", b"a").qos(QoS::AtLeastOnce)), id) {
            handles.push(h);
        }
    }
    if state == 1 {
        if let Some(Ok(h)) = bench.run(conn.subscribe(&[TopicFilter::new("f")], &[]), id) {
            handles.push(h);
        }
        if let Some(Ok(Some(h))) = bench.run(conn.publish(Publication::bytes("t", b"b").qos(QoS::ExactlyOnce)), id) {
            handles.push(h);
        }
    }
    if state == 4 {
        // the table of requests awaiting an acknowledgement is full
        for i in 0..9u8 {
            if let Some(Ok(Some(h))) = bench.run(conn.publish(Publication::bytes("t", &[i][..]).qos(QoS::AtLeastOnce)), id) {
                handles.push(h);
            }
        }
    }
    if state == 3 {
        bench.push(id, &[0xE0, 0x00]);
        let _ = bench.run(conn.poll(), id);
    }
    handles
}

pub fn eval_prop(c: &PropCase) -> CaseOut {
    guarded("C19", || {
        let mut viol = Vec::new();
        let vals = values_for(c.id);
        let under_test = Prop { id: c.id, val: vals[c.value % vals.len()].clone() };
        let w = want(c.ctx, &under_test);
        let companion = Prop { id: 0x26, val: PVal::Pair(b"c".to_vec(), b"d".to_vec()) };
        let props_ref: Vec<Prop> = match c.companion {
            1 => vec![companion, under_test.clone()],
            2 => vec![under_test.clone(), companion],
            5 => vec![
                companion.clone(),
                Prop { id: 0x26, val: PVal::Pair(b"e".to_vec(), b"".to_vec()) },
                under_test.clone(),
                Prop { id: 0x26, val: PVal::Pair(b"c".to_vec(), b"f".to_vec()) },
            ],
            _ => vec![under_test.clone()],
        };
        // what must be on the wire when the request is accepted
        let mut wire_ref = props_ref.clone();
        if matches!(c.companion, 3 | 4) {
            wire_ref.push(Prop { id: 0x09, val: PVal::Bin(b"cd".to_vec()) });
        }
        let ctxn = CTX_NAMES[c.ctx as usize];
        let pname = format!("{}-prop{:02x}", ctxn, c.id);
        if c.ctx == 4 {
            // will: validated when the configuration is built
            let mut spec = Spec::plain(64, 256);
            spec.will = Some(WillSpec { topic: "w".into(), data: b"x".to_vec(), qos: 1, retain: false, props: props_ref.clone() });
            let out = with_session(&spec, |bench, s| match connect(bench, s, &connack(false, vec![])) {
                Conn::Ok(_, id) => Ok(bench.written(id)),
                Conn::Err(e, _) => Err(e),
                Conn::Blocked(_) => Err(Res::Cancelled),
            });
            let class;
            match out {
                Built::Config(e) => {
                    class = 1;
                    if e != "InvalidConfig" {
                        flag(&mut viol, "wrong-error", &pname, format!("will with {:?} refused with {}", props_ref, e));
                    }
                    if w == Want::Accept {
                        flag(&mut viol, "legal-property-refused", &pname, format!("will property {:?} is legal in MQTT 5 but Will::new refuses it ({})", under_test, e));
                    }
                }
                Built::Ran(r) => {
                    class = 2;
                    if w == Want::Reject {
                        flag(&mut viol, "illegal-property-accepted", &pname, format!("will property {:?} is not legal for a will but was accepted", under_test));
                    }
                    match r {
                        Ok(written) => match mr::decode_client(&written) {
                            Ok((CPacket::Connect(cp), _)) => {
                                if w != Want::Reject && !cp.will.as_ref().is_some_and(|x| mr::props_equiv(&x.props, &props_ref)) {
                                    flag(&mut viol, "property-not-sent", &pname, format!("CONNECT will properties {:?}, configured {:?}", cp.will.map(|x| x.props), props_ref));
                                }
                            }
                            other => {
                                if w == Want::Accept {
                                    flag(&mut viol, "undecodable", &pname, format!("CONNECT with accepted will properties does not decode: {:?}", other.map(|x| x.0.name())));
                                }
                            }
                        },
                        Err(e) => {
                            if w == Want::Accept && e != Res::BufferTooSmall {
                                flag(&mut viol, "connect-fails", &pname, format!("connect with a legal will fails with {:?}", e));
                            }
                        }
                    }
                }
            }
            return CaseOut { class: hash_of(&(c.ctx, class, w == Want::Accept)), viol };
        }
        let spec = Spec::plain(64, 256);
        let out = with_session(&spec, |bench, s| {
            let ca = connack(false, if c.state == 2 { vec![Prop { id: 0x21, val: PVal::U16(1) }] } else { vec![] });
            let Conn::Ok(mut conn, id) = connect(bench, s, &ca) else { return None };
            let handles = prepare(bench, &mut conn, id, c.state);
            let before = snapshot(&conn, &handles);
            let io_before = bench.io_counts(id);
            let wrote_before = bench.written(id).len();
            let props = props_of(&props_ref);
            let r: Result<bool, Res> = match c.ctx {
                0 => bench
                    .run(
                        conn.publish(match c.companion {
                            3 => Publication::bytes("t", b"zz").qos(qos_of(c.qos)).properties(&props).correlate(b"cd"),
                            4 => Publication::bytes("t", b"zz").qos(qos_of(c.qos)).correlate(b"cd").properties(&props),
                            _ => Publication::bytes("t", b"zz").qos(qos_of(c.qos)).properties(&props),
                        }),
                        id,
                    )
                    .map(|r| r.map(|h| h.is_some()).map_err(|e| Res::from_pub(&e)))
                    .unwrap_or(Err(Res::Cancelled)),
                1 => bench
                    .run(conn.subscribe(&[TopicFilter::new("g")], &props), id)
                    .map(|r| r.map(|_| true).map_err(|e| Res::from_err(&e)))
                    .unwrap_or(Err(Res::Cancelled)),
                2 => bench
                    .run(conn.unsubscribe(&["g"], &props), id)
                    .map(|r| r.map(|_| true).map_err(|e| Res::from_err(&e)))
                    .unwrap_or(Err(Res::Cancelled)),
                _ => bench
                    .run(conn.disconnect_with(Disconnect::success().with_properties(&props)), id)
                    .map(|r| r.map(|_| false).map_err(|e| Res::from_err(&e)))
                    .unwrap_or(Err(Res::Cancelled)),
            };
            let after = snapshot(&conn, &handles);
            Some((r, before, after, io_before, bench.io_counts(id), bench.written(id)[wrote_before..].to_vec()))
        });
        let Built::Ran(Some((r, before, after, io0, io1, written))) = out else { panic!("machinery: setup failed") };
        let class;
        if c.state == 3 {
            // dead handle: documented results, no I/O, whatever the properties are
            class = 10;
            let ok = if c.ctx == 3 { r == Ok(false) } else { r == Err(Res::Disconnected) };
            if !ok {
                flag(&mut viol, "dead-handle-result", ctxn, format!("{} on a dead handle returned {:?}", ctxn, r));
            }
            if io0 != io1 || !written.is_empty() {
                flag(&mut viol, "dead-handle-io", ctxn, format!("{} on a dead handle touched the transport", ctxn));
            }
            if before != after {
                flag(&mut viol, "dead-handle-trace", ctxn, format!("{} on a dead handle changed session state: {:?} -> {:?}", ctxn, before, after));
            }
        } else {
            match (&r, w) {
                (Err(Res::InvalidRequest), Want::Accept) => {
                    class = 3;
                    flag(&mut viol, "legal-property-refused", &pname, format!("{:?} is legal for {} but the request was refused as invalid", under_test, ctxn));
                }
                (Err(Res::InvalidRequest), _) => {
                    class = 4;
                    if !written.is_empty() {
                        flag(&mut viol, "refused-but-sent", &pname, format!("refused {} wrote {}", ctxn, mr::hex(&written)));
                    }
                    if before != after {
                        flag(&mut viol, "refused-leaves-trace", &pname, format!("refused {} changed session state: {:?} -> {:?}", ctxn, before, after));
                    }
                }
                (_, Want::Reject) => {
                    class = 5;
                    flag(&mut viol, "illegal-property-accepted", &pname, format!("{:?} is not legal for {} but the request returned {:?} (wrote {})", under_test, ctxn, r, mr::hex(&written)));
                }
                (Ok(_), _) => {
                    class = 6;
                    // the accepted property must be on the wire
                    let sent = mr::decode_client(&written).ok().map(|(p, _)| match p {
                        CPacket::Publish(pp) => pp.props,
                        CPacket::Subscribe { props, .. } | CPacket::Unsubscribe { props, .. } | CPacket::Disconnect { props, .. } => props,
                        _ => vec![],
                    });
                    if w == Want::Accept && !sent.as_ref().is_some_and(|x| mr::props_equiv(x, &wire_ref)) {
                        flag(&mut viol, "property-not-sent", &pname, format!("{} accepted {:?} but the wire carries {:?} ({})", ctxn, wire_ref, sent, mr::hex(&written)));
                    }
                }
                (Err(e), _) => {
                    // a local capacity answer is not a rejection of the property
                    class = 7;
                    let capacity = matches!(e, Res::NotReady | Res::BufferTooSmall | Res::InflightExhausted | Res::PacketTooLarge);
                    // the buffers (64 / 256 bytes) are ample for every request of this sweep: on an idle session
                    // a buffer-size answer to a legal property refuses the property
                    let mut enc = Vec::new();
                    mr::put_props(&mut enc, &props_ref);
                    if w == Want::Accept && *e == Res::BufferTooSmall && c.state == 0 && enc.len() <= 64 {
                        flag(&mut viol, "legal-property-refused", &pname, format!("{} with the legal {:?} ({} property bytes, 256-byte transmit buffer) fails with BufferTooSmall", ctxn, props_ref, enc.len()));
                    }
                    if !capacity {
                        flag(&mut viol, "unexpected-error", &format!("{}-{:?}", pname, e), format!("{} with {:?} returned {:?}", ctxn, props_ref, e));
                    }
                    if !written.is_empty() {
                        flag(&mut viol, "refused-but-sent", &pname, format!("{} failed with {:?} but wrote {}", ctxn, e, mr::hex(&written)));
                    }
                    if before != after && c.ctx != 3 {
                        flag(&mut viol, "refused-leaves-trace", &pname, format!("{} failed with {:?} and changed session state: {:?} -> {:?}", ctxn, e, before, after));
                    }
                }
            }
        }
        CaseOut { class: hash_of(&(c.ctx, c.state, class)), viol }
    })
}

/// A property whose string / binary value is too long to be encoded (more than 65535 bytes), in a transmit buffer
/// that would hold it: the request is invalid, not too big for the buffer.
#[derive(Clone, Debug, Serialize, Deserialize)]
pub struct LongCase {
    pub ctx: u8,
    pub id: u8,
    /// for a user property: 0 = the key is too long, 1 = the value
    pub part: u8,
    pub len: usize,
    pub state: u8,
}

pub fn eval_long(c: &LongCase) -> CaseOut {
    guarded("C19", || {
        let mut viol = Vec::new();
        let long = vec![b'L'; c.len];
        let val = match mr::prop_type(c.id as u32).unwrap() {
            PType::Str => PVal::Str(long),
            PType::Bin => PVal::Bin(long),
            PType::Pair if c.part == 0 => PVal::Pair(long, b"v".to_vec()),
            PType::Pair => PVal::Pair(b"k".to_vec(), long),
            _ => panic!("machinery: not a string-valued property"),
        };
        let under_test = Prop { id: c.id, val };
        let legal_value = c.len <= 65535;
        let w = if legal_value { want(c.ctx, &Prop { id: c.id, val: PVal::Str(vec![]) }) } else { Want::Reject };
        let ctxn = CTX_NAMES[c.ctx as usize];
        let pname = format!("{}-prop{:02x}-{}-bytes", ctxn, c.id, if c.len > 65535 { "more-than-65535" } else { "65535" });
        let spec = Spec::plain(64, 140_000);
        let props_ref = vec![under_test.clone()];
        let out = with_session(&spec, |bench, s| {
            let Conn::Ok(mut conn, id) = connect(bench, s, &connack(false, vec![])) else { return None };
            let handles = prepare(bench, &mut conn, id, c.state);
            let before = snapshot(&conn, &handles);
            let wrote_before = bench.written(id).len();
            let props = props_of(&props_ref);
            let r: Result<(), Res> = match c.ctx {
                0 => bench.run(conn.publish(Publication::bytes("t", b"zz").qos(QoS::AtLeastOnce).properties(&props)), id).map(|r| r.map(|_| ()).map_err(|e| Res::from_pub(&e))).unwrap_or(Err(Res::Cancelled)),
                1 => bench.run(conn.subscribe(&[TopicFilter::new("g")], &props), id).map(|r| r.map(|_| ()).map_err(|e| Res::from_err(&e))).unwrap_or(Err(Res::Cancelled)),
                2 => bench.run(conn.unsubscribe(&["g"], &props), id).map(|r| r.map(|_| ()).map_err(|e| Res::from_err(&e))).unwrap_or(Err(Res::Cancelled)),
                _ => bench.run(conn.disconnect_with(Disconnect::success().with_properties(&props)), id).map(|r| r.map_err(|e| Res::from_err(&e))).unwrap_or(Err(Res::Cancelled)),
            };
            let after = snapshot(&conn, &handles);
            Some((r, before, after, bench.written(id)[wrote_before..].to_vec()))
        });
        let Built::Ran(Some((r, before, after, written))) = out else { panic!("machinery: setup failed") };
        let sent = written.len();
        let class;
        match (&r, w) {
            (Err(Res::InvalidRequest), Want::Accept) => {
                class = 1;
                flag(&mut viol, "legal-property-refused", &pname, format!("a {}-byte value is legal for property {:#04x} on {} but the request was refused as invalid", c.len, c.id, ctxn));
            }
            (Err(Res::InvalidRequest), _) => class = 2,
            (Ok(()), Want::Reject) => {
                class = 3;
                flag(&mut viol, "illegal-property-accepted", &pname, format!("{} accepted property {:#04x} with a {}-byte value ({} bytes written)", ctxn, c.id, c.len, sent));
            }
            (Ok(()), _) => {
                class = 4;
                // the longest legal value must arrive whole
                let got = mr::decode_client(&written).ok().map(|(p, _)| match p {
                    CPacket::Publish(pp) => pp.props,
                    CPacket::Subscribe { props, .. } | CPacket::Unsubscribe { props, .. } | CPacket::Disconnect { props, .. } => props,
                    _ => vec![],
                });
                if w == Want::Accept && !got.as_ref().is_some_and(|x| mr::props_equiv(x, &props_ref)) {
                    flag(&mut viol, "property-not-sent", &pname, format!("{} accepted property {:#04x} with a {}-byte value but the wire carries {:?} properties in {} bytes", ctxn, c.id, c.len, got.map(|g| g.len()), sent));
                }
            }
            (Err(e), Want::Reject) => {
                class = 5;
                flag(&mut viol, "wrong-error", &pname, format!("{} with property {:#04x} carrying a {}-byte value (cannot be encoded; the 140000-byte transmit buffer would hold it) fails with {:?}, not with the invalid-request error", ctxn, c.id, c.len, e));
            }
            (Err(e), _) => {
                class = 6;
                if *e == Res::BufferTooSmall && w == Want::Accept {
                    flag(&mut viol, "legal-property-refused", &pname, format!("{} with the legal {}-byte value fails with BufferTooSmall in a 140000-byte transmit buffer", ctxn, c.len));
                }
            }
        }
        if r.is_err() {
            if sent != 0 {
                flag(&mut viol, "refused-but-sent", &pname, format!("refused {} wrote {} bytes", ctxn, sent));
            }
            if before != after && c.ctx != 3 {
                flag(&mut viol, "refused-leaves-trace", &pname, format!("refused {} changed session state: {:?} -> {:?}", ctxn, before, after));
            }
        }
        CaseOut { class: hash_of(&(c.ctx, class)), viol }
    })
}

#[derive(Clone, Debug, Serialize, Deserialize)]
pub struct EmptyCase {
    pub unsubscribe: bool,
    pub state: u8,
}

pub fn eval_empty(c: &EmptyCase) -> CaseOut {
    guarded("C19", || {
        let mut viol = Vec::new();
        let spec = Spec::plain(64, 256);
        let out = with_session(&spec, |bench, s| {
            let ca = connack(false, if c.state == 2 { vec![Prop { id: 0x21, val: PVal::U16(1) }] } else { vec![] });
            let Conn::Ok(mut conn, id) = connect(bench, s, &ca) else { return None };
            let handles = prepare(bench, &mut conn, id, c.state);
            let before = snapshot(&conn, &handles);
            let wrote_before = bench.written(id).len();
            let r = if c.unsubscribe {
                bench.run(conn.unsubscribe(&[], &[]), id).map(|r| r.map(|_| ()).map_err(|e| Res::from_err(&e)))
            } else {
                bench.run(conn.subscribe(&[], &[]), id).map(|r| r.map(|_| ()).map_err(|e| Res::from_err(&e)))
            }
            .unwrap_or(Err(Res::Cancelled));
            let after = snapshot(&conn, &handles);
            Some((r, before, after, bench.written(id)[wrote_before..].to_vec()))
        });
        let Built::Ran(Some((r, before, after, written))) = out else { panic!("machinery: setup failed") };
        let name = if c.unsubscribe { "unsubscribe" } else { "subscribe" };
        let want = if c.state == 3 { Err(Res::Disconnected) } else { Err(Res::InvalidRequest) };
        if r != want {
            flag(&mut viol, "empty-list-result", name, format!("{} with an empty list returned {:?}, documented {:?}", name, r, want));
        }
        if !written.is_empty() {
            flag(&mut viol, "refused-but-sent", &format!("{}-empty", name), format!("wrote {}", mr::hex(&written)));
        }
        if before != after {
            flag(&mut viol, "refused-leaves-trace", &format!("{}-empty", name), format!("{:?} -> {:?}", before, after));
        }
        CaseOut { class: hash_of(&(c.unsubscribe, c.state)), viol }
    })
}

#[derive(Clone, Debug, Serialize, Deserialize)]
pub struct QosCase {
    pub max_qos: Option<u8>,
    pub qos: u8,
    pub downgrade: bool,
    pub retain: bool,
}

pub fn eval_qos(c: &QosCase) -> CaseOut {
    guarded("C19", || {
        let mut viol = Vec::new();
        let mut spec = Spec::plain(64, 256);
        spec.downgrade = c.downgrade;
        let out = with_session(&spec, |bench, s| {
            let ca = connack(false, c.max_qos.map(|q| vec![Prop { id: 0x24, val: PVal::Byte(q) }]).unwrap_or_default());
            let Conn::Ok(mut conn, id) = connect(bench, s, &ca) else { return None };
            let wrote_before = bench.written(id).len();
            let mut p = Publication::bytes("t", b"zz").qos(qos_of(c.qos));
            if c.retain {
                p = p.retain();
            }
            let r = bench.run(conn.publish(p), id).map(|r| r.map_err(|e| Res::from_pub(&e))).unwrap_or(Err(Res::Cancelled));
            let written = bench.written(id)[wrote_before..].to_vec();
            let mut trail = Vec::new();
            if let Ok(Some(h)) = &r {
                trail.push(conn.is_pending(h));
                let pid = mr::decode_client(&written).ok().and_then(|(p, _)| p.pid()).unwrap_or(1);
                let (hi, lo) = ((pid >> 8) as u8, pid as u8);
                // acknowledge as the QoS on the wire demands
                let wire_qos = mr::decode_client(&written).ok().map(|(p, _)| match p {
                    CPacket::Publish(pp) => pp.qos,
                    _ => 9,
                });
                if wire_qos == Some(1) {
                    bench.push(id, &[0x40, 0x02, hi, lo]);
                    let _ = bench.run(conn.poll(), id);
                    trail.push(conn.is_complete(h));
                } else if wire_qos == Some(2) {
                    bench.push(id, &[0x50, 0x02, hi, lo]);
                    let _ = bench.run(conn.poll(), id);
                    trail.push(conn.is_pending(h));
                    bench.push(id, &[0x70, 0x02, hi, lo]);
                    let _ = bench.run(conn.poll(), id);
                    trail.push(conn.is_complete(h));
                }
            }
            Some((r.map(|h| h.is_some()), written, trail))
        });
        let Built::Ran(Some((r, written, trail))) = out else { panic!("machinery: setup failed") };
        let limit = c.max_qos.unwrap_or(2);
        let ctx = format!("max{:?}-req{}-downgrade{}", c.max_qos, c.qos, c.downgrade);
        let wire = mr::decode_client(&written).ok().map(|(p, _)| p);
        let wire_qos = match &wire {
            Some(CPacket::Publish(pp)) => Some(pp.qos),
            _ => None,
        };
        if c.downgrade {
            let used = c.qos.min(limit);
            if let Some(q) = wire_qos {
                if q > limit {
                    flag(&mut viol, "qos-above-maximum", &ctx, format!("PUBLISH sent at QoS {} although the broker's Maximum QoS is {}", q, limit));
                }
            }
            match r {
                Ok(has_handle) => {
                    if wire_qos != Some(used) {
                        flag(&mut viol, "qos-not-capped-to-maximum", &ctx, format!("requested QoS {}, Maximum QoS {}: wire QoS {:?}", c.qos, limit, wire_qos));
                    }
                    if has_handle != (used > 0) {
                        flag(&mut viol, "handle-does-not-match-used-qos", &ctx, format!("QoS used {} but handle present = {}", used, has_handle));
                    }
                    if trail.iter().any(|x| !*x) {
                        flag(&mut viol, "handle-does-not-match-used-qos", &format!("{}-completion", ctx), format!("handle did not follow the acknowledgements of QoS {}: {:?}", used, trail));
                    }
                    if let Some(CPacket::Publish(pp)) = &wire {
                        if pp.retain != c.retain || pp.payload != b"zz" || pp.topic != b"t" {
                            flag(&mut viol, "downgrade-changes-message", &ctx, format!("downgraded PUBLISH differs from the request: {:?}", pp));
                        }
                    }
                }
                Err(e) => flag(&mut viol, "unexpected-error", &ctx, format!("publish returned {:?}", e)),
            }
        } else if c.qos <= limit {
            // nothing to cap: behaves like a plain publish
            if r != Ok(c.qos > 0) || wire_qos != Some(c.qos) {
                flag(&mut viol, "plain-publish-changed", &ctx, format!("result {:?}, wire QoS {:?}", r, wire_qos));
            }
        }
        CaseOut { class: hash_of(&(c.downgrade, wire_qos, r.is_ok())), viol }
    })
}

#[derive(Clone, Debug, Serialize, Deserialize)]
pub struct QosReplayCase {
    /// Maximum QoS of the first connection (None = absent)
    pub first_max: Option<u8>,
    /// Maximum QoS of the resumed connection
    pub second_max: Option<u8>,
    pub qos: u8,
}

/// Auto-downgrade across a reconnect: a publish accepted under one Maximum QoS and still unacknowledged
/// when the session is resumed on a connection with a lower one.
pub fn eval_qos_replay(c: &QosReplayCase) -> CaseOut {
    guarded("C19", || {
        let mut viol = Vec::new();
        let mut spec = Spec::plain(64, 256);
        spec.downgrade = true;
        let mq = |m: Option<u8>| m.map(|q| vec![Prop { id: 0x24, val: PVal::Byte(q) }]).unwrap_or_default();
        let out = with_session(&spec, |bench, s| {
            let first = {
                let Conn::Ok(mut conn, id) = connect(bench, s, &connack(false, mq(c.first_max))) else { return None };
                let before = bench.written(id).len();
                let r = bench.run(conn.publish(Publication::bytes("t", b"zz").qos(qos_of(c.qos))), id);
                if !matches!(r, Some(Ok(_))) {
                    return None;
                }
                bench.written(id)[before..].to_vec()
            };
            let Conn::Ok(mut conn, id) = connect(bench, s, &connack(true, mq(c.second_max))) else { return None };
            let before = bench.written(id).len();
            let _ = bench.run(conn.poll(), id);
            let replayed = bench.written(id)[before..].to_vec();
            // new publishes on the resumed connection are capped by *its* Maximum QoS
            let before = bench.written(id).len();
            let mut handles = Vec::new();
            for q in 1..=2u8 {
                let r = bench.run(conn.publish(Publication::bytes("t", b"nn").qos(qos_of(q))), id);
                handles.push(matches!(r, Some(Ok(Some(_)))));
            }
            Some((first, replayed, bench.written(id)[before..].to_vec(), handles))
        });
        let Built::Ran(out) = out else { panic!("machinery: config refused") };
        let Some((first, second, fresh, handles)) = out else { panic!("machinery: setup failed") };
        let qos_of_wire = |b: &[u8]| -> Vec<u8> {
            let mut v = Vec::new();
            let mut off = 0;
            while off < b.len() {
                match mr::decode_client(&b[off..]) {
                    Ok((CPacket::Publish(pp), n)) => {
                        v.push(pp.qos);
                        off += n;
                    }
                    Ok((_, n)) => off += n,
                    Err(_) => break,
                }
            }
            v
        };
        let limit2 = c.second_max.unwrap_or(2);
        let ctx = format!("first{:?}-second{:?}-req{}", c.first_max, c.second_max, c.qos);
        for q in qos_of_wire(&second) {
            if q > limit2 {
                flag(
                    &mut viol,
                    "qos-above-maximum",
                    "replay-on-a-connection-with-a-lower-maximum-qos",
                    format!("{}: a PUBLISH at QoS {} is retransmitted on a resumed connection whose CONNACK says Maximum QoS {}", ctx, q, limit2),
                );
            }
        }
        for q in qos_of_wire(&fresh) {
            if q > limit2 {
                flag(
                    &mut viol,
                    "qos-above-maximum",
                    "new-publish-on-a-resumed-connection-with-a-lower-maximum-qos",
                    format!("{}: a new PUBLISH goes out at QoS {} on a resumed connection whose CONNACK says Maximum QoS {}", ctx, q, limit2),
                );
            }
        }
        if limit2 == 0 && handles.iter().any(|h| *h) {
            flag(
                &mut viol,
                "handle-does-not-match-used-qos",
                "new-publish-on-a-resumed-connection-with-maximum-qos-0",
                format!("{}: publishes capped to QoS 0 returned handles {:?}", ctx, handles),
            );
        }
        CaseOut { class: hash_of(&(qos_of_wire(&first), qos_of_wire(&second), qos_of_wire(&fresh))), viol }
    })
}

pub fn run(tier: Tier, caps: &Caps) -> Vec<FamilyReport> {
    let mut out = Vec::new();
    let mut pc = Vec::new();
    for ctx in 0..5u8 {
        for id in ALL_PROP_IDS {
            for value in 0..values_for(id).len() {
                let states: Vec<u8> = if ctx == 4 { vec![0] } else { vec![0, 1, 2, 3, 4] };
                for state in states {
                    let qoss: Vec<u8> = if ctx == 0 { vec![0, 1, 2] } else { vec![0] };
                    for qos in qoss {
                        for companion in 0..6u8 {
                            if tier == Tier::Quick && companion != 0 && state != 0 {
                                continue;
                            }
                            // correlate() exists for publishes only; Correlation Data itself cannot be doubled
                            if matches!(companion, 3 | 4) && (ctx != 0 || id == 0x09) {
                                continue;
                            }
                            pc.push(PropCase { ctx, id, value, state, qos, companion });
                        }
                    }
                }
            }
        }
    }
    out.push(sweep(
        "C19-every-property-in-every-context",
        "C19",
        pc.len() as u64,
        caps,
        json!({"cases": pc.len(), "dimensions": "27 property kinds x boundary values (bytes 0/1/2/255, u16 0/1/65535, u32 0/1/max, varint 0/1/max/max+1, strings and binaries empty/1/40, pairs) x {publish at QoS 0/1/2, subscribe, unsubscribe, disconnect, will} x session state {fresh, requests in flight, send quota exhausted, dead handle, table of requests in flight full} x {alone, behind, in front of a legal user property}; expectation table from MQTT 5 sections 3.1.3.2, 3.3.2.3, 3.8.2.1, 3.10.2.1, 3.14.2.2"}),
        &|i| eval_prop(&pc[i as usize]),
        &|i| serde_json::to_value(&pc[i as usize]).unwrap(),
    ));
    let mut lc = Vec::new();
    for ctx in 0..4u8 {
        for id in ALL_PROP_IDS {
            let ty = mr::prop_type(id as u32).unwrap();
            if !matches!(ty, PType::Str | PType::Bin | PType::Pair) {
                continue;
            }
            for part in 0..2u8 {
                if part == 1 && ty != PType::Pair {
                    continue;
                }
                for len in [65535usize, 65536, 70000] {
                    for state in [0u8, 1] {
                        lc.push(LongCase { ctx, id, part, len, state });
                    }
                }
            }
        }
    }
    out.push(sweep(
        "C19-values-too-long-to-encode",
        "C19",
        lc.len() as u64,
        caps,
        json!({"cases": lc.len(), "dimensions": "every string-, binary- and pair-valued property kind x {publish, subscribe, unsubscribe, disconnect} x value length {65535 (the longest legal one), 65536, 70000} (key and value of a user property separately) x session state {fresh, requests in flight}, in a 140000-byte transmit buffer: more than 65535 bytes cannot be encoded and is refused as an invalid request, not as a buffer shortage"}),
        &|i| eval_long(&lc[i as usize]),
        &|i| serde_json::to_value(&lc[i as usize]).unwrap(),
    ));
    let mut ec = Vec::new();
    for unsubscribe in [false, true] {
        for state in 0..4u8 {
            ec.push(EmptyCase { unsubscribe, state });
        }
    }
    out.push(sweep(
        "C19-empty-filter-lists",
        "C19",
        ec.len() as u64,
        caps,
        json!({"cases": ec.len(), "dimensions": "subscribe / unsubscribe with an empty list x 4 session states"}),
        &|i| eval_empty(&ec[i as usize]),
        &|i| serde_json::to_value(&ec[i as usize]).unwrap(),
    ));
    let mut qc = Vec::new();
    for max_qos in [None, Some(0u8), Some(1), Some(2)] {
        for qos in 0..3u8 {
            for downgrade in [false, true] {
                for retain in [false, true] {
                    qc.push(QosCase { max_qos, qos, downgrade, retain });
                }
            }
        }
    }
    out.push(sweep(
        "C19-maximum-qos-and-downgrade",
        "C19",
        qc.len() as u64,
        caps,
        json!({"cases": qc.len(), "dimensions": "broker Maximum QoS {absent,0,1,2} x requested QoS x auto-downgrade on/off x retain; the handle is followed through the acknowledgements of the QoS on the wire"}),
        &|i| eval_qos(&qc[i as usize]),
        &|i| serde_json::to_value(&qc[i as usize]).unwrap(),
    ));
    let mut rc = Vec::new();
    for first_max in [None, Some(1u8), Some(2)] {
        for second_max in [None, Some(0u8), Some(1), Some(2)] {
            for qos in 1..3u8 {
                rc.push(QosReplayCase { first_max, second_max, qos });
            }
        }
    }
    out.push(sweep(
        "C19-downgrade-and-replay",
        "C19",
        rc.len() as u64,
        caps,
        json!({"cases": rc.len(), "dimensions": "auto-downgrade on; Maximum QoS of the first connection {absent,1,2} x of the resumed connection {absent,0,1,2} x requested QoS 1/2; the publish is left unacknowledged across the reconnect"}),
        &|i| eval_qos_replay(&rc[i as usize]),
        &|i| serde_json::to_value(&rc[i as usize]).unwrap(),
    ));
    out
}

pub fn replay(name: &str, case: &Value) -> Option<CaseOut> {
    Some(match name {
        "C19-downgrade-and-replay" => eval_qos_replay(&serde_json::from_value(case.clone()).ok()?),
        "C19-every-property-in-every-context" => eval_prop(&serde_json::from_value(case.clone()).ok()?),
        "C19-values-too-long-to-encode" => eval_long(&serde_json::from_value(case.clone()).ok()?),
        "C19-empty-filter-lists" => eval_empty(&serde_json::from_value(case.clone()).ok()?),
        "C19-maximum-qos-and-downgrade" => eval_qos(&serde_json::from_value(case.clone()).ok()?),
        _ => return None,
    })
}
