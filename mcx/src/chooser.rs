//! Choice points: the explorer's handle on every source of nondeterminism.
//!
//! An execution is fully determined by its choice vector. `Chooser` replays a prefix and then
//! takes option 0 (always the benign, cost-0 default) at every later point, recording kind, arity
//! and per-option cost so that the search can enumerate the alternatives.

#[derive(Copy, Clone, Debug, PartialEq, Eq)]
pub struct Point {
    pub kind: u8,
    pub arity: u8,
    pub chosen: u8,
    /// bit i set = option i costs one deviation
    pub cost_mask: u64,
}

pub const K_PROG: u8 = 1; // which API call next (session level)
pub const K_CONN: u8 = 2; // which API call next (connection level)
pub const K_WRITE: u8 = 3;
pub const K_FLUSH: u8 = 4;
pub const K_READ: u8 = 5;
pub const K_ENV: u8 = 6; // blocked read: broker emission / timer / cancel / fault
pub const K_PEND: u8 = 7; // chosen pending: resume / cancel
pub const K_VARIANT: u8 = 8; // which variant of a broker packet (CONNACK kind, ack reason)
pub const K_ARG: u8 = 9; // argument of an API call

pub fn kind_name(k: u8) -> &'static str {
    match k {
        K_PROG => "prog",
        K_CONN => "conn-op",
        K_WRITE => "write",
        K_FLUSH => "flush",
        K_READ => "read",
        K_ENV => "env",
        K_PEND => "pending",
        K_VARIANT => "variant",
        K_ARG => "arg",
        _ => "?",
    }
}

#[derive(Default)]
pub struct Chooser {
    pub prefix: Vec<u8>,
    /// (kind, arity) recorded by the parent for the prefix; empty = do not check.
    pub expect: Vec<(u8, u8)>,
    pub points: Vec<Point>,
    pub spent: u32,
    pub diverged: Option<String>,
    /// When set, every choice is the default and nothing is recorded (benign drain phase).
    pub frozen: bool,
}

impl Chooser {
    pub fn new(prefix: Vec<u8>, expect: Vec<(u8, u8)>) -> Self {
        Chooser {
            prefix,
            expect,
            ..Default::default()
        }
    }

    pub fn pos(&self) -> usize {
        self.points.len()
    }

    pub fn in_prefix(&self) -> bool {
        self.points.len() < self.prefix.len()
    }

    pub fn choose(&mut self, kind: u8, arity: usize, cost_mask: u64) -> usize {
        if self.frozen {
            return 0;
        }
        assert!(arity >= 1 && arity <= 64, "arity {} out of range", arity);
        debug_assert!(cost_mask & 1 == 0, "option 0 must be free");
        let i = self.points.len();
        let chosen = if i < self.prefix.len() {
            let c = self.prefix[i] as usize;
            if let Some(&(k, a)) = self.expect.get(i) {
                if (k != kind || a as usize != arity) && self.diverged.is_none() {
                    self.diverged = Some(format!(
                        "choice point {}: recorded {}/{} but replay sees {}/{}",
                        i,
                        kind_name(k),
                        a,
                        kind_name(kind),
                        arity
                    ));
                }
            }
            if c >= arity {
                if self.diverged.is_none() {
                    self.diverged = Some(format!(
                        "choice point {}: prefix picks option {} of {} ({})",
                        i,
                        c,
                        arity,
                        kind_name(kind)
                    ));
                }
                0
            } else {
                c
            }
        } else {
            0
        };
        if (cost_mask >> chosen) & 1 == 1 {
            self.spent += 1;
        }
        self.points.push(Point {
            kind,
            arity: arity as u8,
            chosen: chosen as u8,
            cost_mask,
        });
        chosen
    }

    pub fn choices(&self) -> Vec<u8> {
        self.points.iter().map(|p| p.chosen).collect()
    }
}
