#!/usr/bin/env python3
"""Regenerates /verif/MANIFEST.json from the table below (keeps the file valid at all times)."""
import json, os, subprocess
ROOT = os.path.dirname(os.path.dirname(os.path.abspath(__file__)))

TECH = "exhaustive deviation-bounded schedule exploration of the real client (stateless DFS by prefix replay + explicit-state pruning)"
CHECKS = {
 "C01": dict(cat="model_checking", ref="DESIGN.md §5 C01",
   text="Every execution of the real Session/Connection within the bounds (all programs over the operation alphabet, every partial-write size, every pending/cancel point, transport faults, broker orders, resumed/fresh reconnects, deviation budget) is run and its outbound byte stream is checked by an independent strict MQTT 5 decoder plus an exact packet-continuity monitor. Exhaustive inside the stated bounds, not beyond.",
   note="Trusted base: mqtt_ref (independent codec, self-tested each run), the VirtualIo/clock harness, the broker model. Assumes transport futures are cancel-safe and never return Ok(0).",
   tech=TECH),
}
NOT_YET = {}
props = [json.loads(l) for l in open(os.path.join(ROOT, "properties.jsonl"))]
checks = []
na = []
for p in props:
    pid = p["id"]
    if pid in CHECKS:
        c = CHECKS[pid]
        checks.append({
            "property_id": pid,
            "quick_cmd": f"./check {pid} --tier quick",
            "thorough_cmd": f"./check {pid} --tier thorough",
            "evidence_file": f"/verif/evidence/{pid}.json",
            "replay_cmd_template": "./check --replay {path}",
            "engine": "mcx",
            "level_claimed": {"category": c["cat"], "text": c["text"], "design_ref": c["ref"]},
            "level_note": c["note"],
            "technique": c["tech"],
        })
    else:
        na.append({"property_id": pid, "reason": NOT_YET.get(pid, "check not built yet in this revision of /verif (work in progress; the design in DESIGN.md claims it)")})
hook_commits = subprocess.run(["git", "-C", "/repo", "log", "--format=%H", "--grep", "^verif-hooks"], capture_output=True, text=True).stdout.split()
m = {
 "version": 1,
 "setup_cmd": "cd /verif/mcx && CARGO_NET_OFFLINE=true CARGO_TARGET_DIR=/verif/mcx/target cargo build --release --offline",
 "hooks": {
   "guard": "cargo feature verif-hooks (in /repo/Cargo.toml; off by default)",
   "enable": "the engine crate /verif/mcx depends on minimq = { path = \"/repo\", default-features = false, features = [\"verif-hooks\"] } and is rebuilt by every check",
   "baseline_off_cmd": "cd /repo && cargo test --workspace --no-fail-fast --offline",
   "source_commits": hook_commits,
   "add_only": True,
 },
 "engines": [{"name": "mcx", "path": "/verif/mcx", "serves_properties": sorted(CHECKS.keys()),
              "kind_free_text": "hand-rolled stateless model checker: drives the real minimq Session/Connection under a virtual transport, virtual clock and broker model; enumerates every choice vector within a deviation budget by prefix replay, prunes on a 128-bit key of the real session state"}],
 "checks": checks,
 "not_applicable": na,
 "notes": "All checks are exhaustive enumerations inside stated bounds (see evidence coverage.families[].bounds). Known genuine defects are listed in /verif/known_findings.json and reported as KNOWN-FINDING lines.",
}
json.dump(m, open(os.path.join(ROOT, "MANIFEST.json"), "w"), indent=1)
print("checks:", len(checks), "not_applicable:", len(na))
