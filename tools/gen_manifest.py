#!/usr/bin/env python3
"""Regenerates /verif/MANIFEST.json from the table below (keeps the file valid at all times).
A property is registered as a check only when it is in BUILT; everything else is listed under
not_applicable with the reason from NOT_YET."""
import json, os, subprocess
ROOT = os.path.dirname(os.path.dirname(os.path.abspath(__file__)))

SCHED = "exhaustive deviation-bounded schedule exploration of the real client (stateless DFS by prefix replay + explicit-state pruning on the real session state)"
SWEEP = "exhaustive enumeration of a finite input space on the real client (every case executed, differential oracle: independent MQTT 5 reference codec)"
CLOSE = "explicit-state breadth-first closure of the real client's reachable state graph (fixpoint over a finite event alphabet)"
TWIN = "exhaustive enumeration of schedule pairs (twin runs of the real client differing in one dimension) with trace-equality oracle"
BASE = "Trusted base: mqtt_ref (independent codec written from the OASIS text, self-tested each run), the VirtualIo/virtual-clock harness and the broker model. Assumes transport futures are cancel-safe and write never returns Ok(0) for a non-empty buffer. Bounded: holds for the alphabets, lengths and deviation budgets listed in the evidence file, not beyond."

CHECKS = {
 "C01": dict(tech=SCHED, text="Every execution of the real Session/Connection within the bounds (all programs over the operation alphabet, every partial-write size, every pending/cancel point, transport faults, broker orders, resumed/fresh reconnects, deviation budget) is run; its outbound byte stream is checked by an exact packet-continuity monitor on offered/accepted buffers plus an independent strict MQTT 5 decoder (W1 CONNECT first and once, W2 no packet starts inside another, W3 well-formed, W4 nothing after DISCONNECT)."),
 "C02": dict(tech=SCHED, text="Connection death is injected at every I/O call of every operation, with cancellations, ack orders and up to 3-4 consecutive resumed reconnects; per execution the reference model checks that every accepted QoS 1 message is retransmitted exactly once per resumed connection (same id, DUP, byte-identical), never twice on one connection, never after its PUBACK, in acceptance order, and is acknowledged by the end of a benign continuation."),
 "C03": dict(tech=SCHED, text="Up to 3-4 concurrent QoS 2 exchanges with every PUBREC/PUBCOMP order, failing PUBREC, crash between any two of the four steps and resumed reconnects; monitors X1-X5 (PUBREL only after success PUBREC, no PUBLISH after PUBREC, PUBREL replayed once per resumed connection, failing PUBREC ends the exchange, replayed PUBRELs keep PUBREC order)."),
 "C04": dict(tech=SCHED, text="Broker-originated QoS 0/1/2 publishes (ids 1, 258, 65535), DUP retransmissions, PUBREL for pending and unknown ids, interleaved with outbound traffic, cancellations, partial reads, full transmit arena and resumed/fresh reconnects; monitors: delivered message equals what was sent and is delivered exactly once, acks are exactly the owed ones in arrival order with the right reason, a fresh session forgets pending ids."),
 "C05": dict(tech=SCHED, text="Sequences of up to 3-4 connections with session-present / session-lost answers, rejected, garbled, truncated and cancelled handshakes and assigned client ids, with any mix of in-flight requests at each loss; monitors S1 clean-start bit, S2 client id, S3 fresh => Connected, nothing stale ever offered, handles invalidated, S4 resumed => Reconnected and everything unacknowledged retransmitted exactly once before any new request."),
 "C06": dict(tech=SCHED, text="Receive Maximum 1, 2, 3 (also changing between connections) and 9/65535/absent (local clamp 8) with every mix of QoS 1/2, ack order, failing acks, cancellations and resumed reconnects; the broker-side count of unresolved PUBLISH packets is compared with the window of the current CONNACK after every completed PUBLISH; refused publishes must leave no trace; no acknowledgement may fail for lack of local metadata."),
 "C07": dict(tech=SCHED, text="The identifier counter is placed next to the 16-bit wrap (65534, 65535) or aged round to a live identifier; every program over publish/subscribe/unsubscribe/poll with operations left in flight is run and every identifier-bearing packet offered is compared with the set of identifiers still awaiting their final acknowledgement. The counter setter (hook) is validated against a hook-free history of 65535 refused publishes that must reach the same session fingerprint."),
 "C08": dict(tech=SWEEP, text="Every byte string up to length 2 (quick) / 3 (thorough) plus all 3/4-byte strings behind 16 plausible first bytes, every first byte x 22 remaining-length forms x body lengths, and a grammar of all server packet types with every single-byte substitution / truncation / extension, each fed whole and byte-by-byte after CONNACK and in place of CONNACK; expected behaviour comes from the independent reference decoder (valid => exact field values, listed malformation => invalid-packet, dead handle, nothing acted upon); any panic/overflow/out-of-bounds is a violation."),
 "C09": dict(tech=SWEEP, text="Full product of CONNECT configurations, PUBLISH/SUBSCRIBE/UNSUBSCRIBE/DISCONNECT/ack requests over boundary values, property subsets, remaining-length boundaries and buffer sizes from too small to ample; the bytes accepted by the transport are decoded by the independent reference decoder and compared field by field with the request; on any error result nothing of the request may have been offered."),
 "C10": dict(tech=CLOSE, text="For each (keep-alive, server keep-alive) pair the reachable states of the real client under the event alphabet {timer fires exactly / late, PINGRESP now / never, inbound QoS 0, cancel + publish, poll again} are closed breadth-first to a fixpoint (timer offsets are relative, so the graph is finite); on every transition the monitors check the gap between completed client packets against the effective keep-alive, that keep-alive 0 sends no ping, and that an unanswered PINGREQ disconnects at, and not before, the round-trip bound."),
 "C11": dict(tech=SCHED, text="Every fault kind (write/flush/read error, EOF, server DISCONNECT, six malformed-input classes, keep-alive timeout, disconnect()) at every I/O call of every operation, followed by every sequence of further calls from the nine operations and the status queries; after the first fatal result is_connected/can_publish must stay false, results must be Disconnected (disconnect => Ok) and the transport call counters must not move."),
 "C12": dict(tech=SCHED, text="Every state reached by programs with faults, cancellations at any await point, bad handshakes, malformed broker data, dropped / forgotten / into_inner handles and arena-filling retained payloads is followed by the benign continuation: connect() on a healthy transport to a conformant broker must succeed, start with one complete CONNECT, carry nothing partial over and drain to quiescence."),
 "C13": dict(tech=TWIN, text="For every program and every await point each operation reaches (every pending read, write after any accepted prefix, flush, timer) the cancelled execution is compared with its uncancelled twin under a deterministic responsive broker: per class (requests, acks, PUBRELs, deliveries) the byte-exact sequences must agree, or equal those of the program without the cancelled request iff nothing of it was offered and the session shows no trace of it."),
 "C14": dict(tech=SWEEP, text="Broker maxima from 2 up, request sizes around the limit for every send site (QoS 0/1/2 publish, subscribe, unsubscribe, disconnect, acks, PUBREL, PINGREQ, replay on a later connection with a smaller maximum), receive buffers 5..64 with inbound packets around the buffer size; no completely offered packet may exceed the current maximum, oversize requests fail with packet-too-large leaving nothing behind, CONNECT advertises the receive-buffer size, oversize inbound packets end the connection."),
 "C15": dict(tech=TWIN, text="All 2^(n-1) chunkings of short inbound streams and every partial-write pattern within the budget are run against the unfragmented twin of the same program; delivered messages, operation results and the outbound byte stream must be identical."),
 "C16": dict(tech=SCHED, text="Every state reached by programs with partial writes, cancellations, faults, failed handshakes and failing acks is followed by the benign continuation (reconnect with session present if needed, then poll under a responsive broker): all requests complete, all owed acks are sent and the session is publish-quiescent within a bounded number of polls; poll returns Ok(None) only after wire progress; no operation exceeds the I/O watchdog; nothing is completely transmitted twice on one connection."),
 "C17": dict(tech=CLOSE, text="Breadth-first closure over arena sizes and payload classes with publish / subscribe / QoS 0 / ack-any-id / reconnect events to a fixpoint per configuration; every retransmission must equal the first transmission except the DUP bit, and in every quiescent state a fixed probe battery must be accepted exactly as by a brand-new session."),
 "C18": dict(tech=SCHED, text="Status of every handle ever issued is sampled after every step of every execution (all operation kinds, ack orders, failing reason codes, fresh/resumed reconnects, cancellations) and compared with the reference model (pending until the final ack was consumed in the issuing session, invalidated iff a fresh session replaced it); a failing reason code must be surfaced as the rejected error by exactly the operation that consumed it."),
 "C19": dict(tech=SWEEP, text="All 27 property kinds x {publish, subscribe, unsubscribe, disconnect, will} with boundary values in several session states, empty filter lists, dead handle, and Maximum QoS x requested QoS x downgrade; expectation table transcribed from MQTT 5; a refused request must offer zero bytes and leave quiescence, quota and handle status unchanged."),
 "C20": dict(tech=SWEEP, text="Response topics and correlation data over boundary lengths and byte values, at every position among other properties, with user properties added after reply(), and owned capacities around the actual sizes; the reply is published through the real client and decoded by the reference decoder."),
}
BUILT = ["C01", "C02", "C03", "C04", "C05", "C06", "C07", "C08", "C09", "C10", "C11", "C12", "C13", "C14", "C15", "C16", "C17", "C18", "C19", "C20"]
NOT_YET = "check not built yet in this revision of /verif (work in progress; DESIGN.md describes the planned check)"
CATEGORY = "model_checking"

props = [json.loads(l) for l in open(os.path.join(ROOT, "properties.jsonl"))]
checks, na = [], []
for p in props:
    pid = p["id"]
    if pid in BUILT:
        c = CHECKS[pid]
        checks.append({
            "property_id": pid,
            "quick_cmd": f"./check {pid} --tier quick",
            "thorough_cmd": f"./check {pid} --tier thorough",
            "evidence_file": f"/verif/evidence/{pid}.json",
            "replay_cmd_template": "./check --replay {path}",
            "engine": "mcx",
            "level_claimed": {"category": CATEGORY, "text": c["text"] + " Exhaustive inside the stated bounds, not beyond.", "design_ref": f"DESIGN.md section 5 {pid}"},
            "level_note": BASE,
            "technique": c["tech"],
        })
    else:
        na.append({"property_id": pid, "reason": NOT_YET})
hook_commits = subprocess.run(["git", "-C", "/repo", "log", "--format=%H", "--grep", "^verif-hooks"], capture_output=True, text=True).stdout.split()
m = {
 "version": 1,
 "setup_cmd": "cd /verif/mcx && CARGO_NET_OFFLINE=true CARGO_TARGET_DIR=/verif/mcx/target cargo build --release --offline",
 "hooks": {
   "guard": "cargo feature verif-hooks (in /repo/Cargo.toml; off by default)",
   "enable": "the engine crate /verif/mcx depends on minimq = { path = \"/repo\", default-features = false, features = [\"verif-hooks\"] } and is rebuilt by every check",
   "baseline_off_cmd": "cd /repo && cargo test --workspace --no-fail-fast --offline",
   "source_commits": hook_commits,
   "add_only": True,
 },
 "engines": [{"name": "mcx", "path": "/verif/mcx", "serves_properties": sorted(BUILT),
              "kind_free_text": "hand-rolled stateless model checker: drives the real minimq Session/Connection under a virtual transport, virtual clock and broker model; enumerates every choice vector within a deviation budget by prefix replay, prunes on a 128-bit key of the real session state; breadth-first closure and exhaustive input sweeps for the properties over unbounded histories / input spaces"}],
 "checks": checks,
 "not_applicable": na,
 "notes": "All checks are exhaustive enumerations inside stated bounds (see evidence coverage.families[].bounds). Genuine defects found are either repaired in /repo ('fix:' commits) or listed in /verif/known_findings.json and reported as KNOWN-FINDING lines; 'fixed' entries there suppress nothing.",
}
json.dump(m, open(os.path.join(ROOT, "MANIFEST.json"), "w"), indent=1)
print("checks:", len(checks), "not_applicable:", len(na))
