#!/bin/bash
# tools/eval_benign_some.sh "<check ids>" [benign dirs...] : re-runs only the named quick checks against each
# behaviour-preserving change (after an engine change that touches only those checks) and merges the verdicts into
# <dir>/eval.txt. Up to $JOBS in parallel.
cd /verif
IDS="$1"; shift
DIRS="$@"; [ -z "$DIRS" ] && DIRS=$(ls -d /verif/benign/B*/ | sed 's#/$##')
JOBS=${JOBS:-3}
for d in $DIRS; do
  ( /verif/tools/eval_seed.sh $d $IDS > $d/eval2.log 2>&1; grep "^RESULT" $d/eval2.log > $d/eval2.txt; rm -f $d/eval2.log
    python3 - "$d" <<'PY'
import re, sys
d = sys.argv[1]
old = open(d + '/eval.txt').read().strip()
new = open(d + '/eval2.txt').read().strip()
if 'checks:' not in new:
    print('RESULT', d, 'partial re-run failed:', new); sys.exit(0)
for m in re.finditer(r'(C\d\d):(\S+)', new.split('checks:')[1]):
    old, n = re.subn(m.group(1) + r':\S+', m.group(1) + ':' + m.group(2), old)
    if n == 0:
        old += ' ' + m.group(0)
open(d + '/eval.txt', 'w').write(old + '\n')
print(old)
PY
    rm -f $d/eval2.txt ) &
  while [ $(jobs -r | wc -l) -ge $JOBS ]; do sleep 2; done
done
wait
