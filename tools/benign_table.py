#!/usr/bin/env python3
"""Rebuilds the table of /verif/benign/RESULTS.md from benign/*/meta.json and benign/*/eval.txt (written by
tools/eval_benign.sh); the notes on the rounds below the table are kept."""
import json, os, re
root = '/verif/benign'
old = open(os.path.join(root, 'RESULTS.md')).read()
notes = old[old.index('\nSecond round'):] if '\nSecond round' in old else ''
def key(d):
    return int(re.sub(r'\D', '', d))
rows = []
for d in sorted([x for x in os.listdir(root) if os.path.isdir(os.path.join(root, x))], key=key):
    meta = json.load(open(os.path.join(root, d, 'meta.json')))
    ev = open(os.path.join(root, d, 'eval.txt')).read().strip() if os.path.exists(os.path.join(root, d, 'eval.txt')) else ''
    suite = re.search(r'suite\[(.*?)\]', ev)
    alarms = re.findall(r'(C\d\d):(?:DETECTED|MACHINERY)', ev)
    ran = len(re.findall(r'C\d\d:', ev))
    cut = lambda t, n: (t or '')[:n].replace('|', '/').replace('\n', ' ')
    rows.append((d, cut(meta.get('summary'), 220), cut(meta.get('observable_difference'), 200), suite.group(1) if suite else '?', (' '.join(alarms) if alarms else 'none') + f' ({ran} checks run)'))
    meta['verif'] = {'all_quick_checks_run': ev, 'alarms': alarms}
    json.dump(meta, open(os.path.join(root, d, 'meta.json'), 'w'), indent=1)
with open(os.path.join(root, 'RESULTS.md'), 'w') as f:
    f.write('# Behaviour-preserving changes: no check may raise an alarm\n\nIndependent sub-agents were given all 20 property statements and asked for a legitimate refactoring / equally legal implementation choice in one focus area that keeps every property true (and the repository suite green). Each change is applied in an isolated scratch worktree and all twenty quick checks are run against it with the current engine (`tools/eval_benign.sh`; the last column is from the latest such run).\n\n')
    f.write('| id | change | what an observer can see | repository suite | checks that alarmed |\n|---|---|---|---|---|\n')
    for r in rows:
        f.write('| ' + ' | '.join(r) + ' |\n')
    f.write(notes)
print(len(rows), 'benign changes;', sum(1 for r in rows if not r[4].startswith('none')), 'with alarms')
