#!/bin/bash
# tools/iso_run.sh <tier> <check ids...> : runs checks on a snapshot (scratch worktree of /repo HEAD + copy of the
# engine sources) so that /repo and /verif/mcx can be edited meanwhile. Development aid; evidence is discarded.
TIER="$1"; shift
W=$(mktemp -d /tmp/isorun.XXXXXX)
trap 'git -C /repo worktree remove --force "$W/repo" >/dev/null 2>&1; rm -rf "$W"' EXIT
git -C /repo worktree add --detach "$W/repo" HEAD -q || exit 2
mkdir -p "$W/mcx" "$W/out"
cp -r /verif/mcx/src /verif/mcx/Cargo.toml /verif/mcx/Cargo.lock "$W/mcx/"
sed -i "s#path = \"/repo\"#path = \"$W/repo\"#" "$W/mcx/Cargo.toml"
cp /verif/known_findings.json "$W/out/"
export CARGO_NET_OFFLINE=true
( cd "$W/mcx" && CARGO_TARGET_DIR="$W/mcx/target" cargo build --release --offline -q 2>"$W/build.log" ) || { tail -20 "$W/build.log"; exit 2; }
for c in "$@"; do
  /usr/bin/time -f "$c wall=%es rss=%MKB" env VERIF_ROOT="$W/out" "$W/mcx/target/release/mcx" check $c --tier $TIER 2>&1 | grep -E "^family|^direct|note:|VIOLATION|signature|machinery|wall=|$TIER:|CAPPED" | cut -c1-260
done
