#!/bin/bash
# tools/eval_own.sh [seed dirs...] : confirms each seed (suite with the change, demo with / without it) in an
# isolated scratch worktree and runs the quick check of the property the seed was written against (plus any
# extra check ids given in $EXTRA). Writes <seed>/eval_own.txt. Up to $JOBS seeds in parallel.
cd /verif
SEEDS="$@"; [ -z "$SEEDS" ] && SEEDS=$(ls -d /verif/seeded/*/ | sed 's#/$##')
JOBS=${JOBS:-4}
for d in $SEEDS; do
  own=$(python3 -c "import json,sys; print(json.load(open('$d/meta.json'))['property'])")
  ( /verif/tools/eval_seed.sh $d $own $EXTRA > $d/eval.log 2>&1; grep "^RESULT" $d/eval.log > $d/eval_own.txt; rm -f $d/eval.log; cat $d/eval_own.txt ) &
  while [ $(jobs -r | wc -l) -ge $JOBS ]; do sleep 2; done
done
wait
