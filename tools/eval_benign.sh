#!/bin/bash
# tools/eval_benign.sh [benign dirs...] : applies each behaviour-preserving change in an isolated scratch worktree,
# runs the repository suite and all twenty quick checks with the current engine; writes <dir>/eval.txt.
# No check may report a VIOLATION. Up to $JOBS in parallel.
cd /verif
DIRS="$@"; [ -z "$DIRS" ] && DIRS=$(ls -d /verif/benign/B*/ | sed 's#/$##')
JOBS=${JOBS:-3}
ALL="C01 C02 C03 C04 C05 C06 C07 C08 C09 C10 C11 C12 C13 C14 C15 C16 C17 C18 C19 C20"
for d in $DIRS; do
  ( /verif/tools/eval_seed.sh $d $ALL > $d/eval.log 2>&1; grep "^RESULT" $d/eval.log > $d/eval.txt; rm -f $d/eval.log; cat $d/eval.txt ) &
  while [ $(jobs -r | wc -l) -ge $JOBS ]; do sleep 2; done
done
wait
