#!/usr/bin/env python3
"""Builds /verif/seeded/RESULTS.md from seeded/*/meta.json, seeded/*/eval_own.txt (latest confirmation
and the check of the seed's own property, tools/eval_own.sh) and seeded/*/eval.txt (an earlier run of all
twenty quick checks, tools/eval_all_seeds.sh, where one exists)."""
import json, os, re
root = '/verif/seeded'
rows = []
for d in sorted(os.listdir(root)):
    p = os.path.join(root, d)
    if not os.path.isdir(p):
        continue
    meta = json.load(open(os.path.join(p, 'meta.json')))
    read = lambda n: open(os.path.join(p, n)).read().strip() if os.path.exists(os.path.join(p, n)) else ''
    own_ev, all_ev = read('eval_own.txt'), read('eval.txt')
    ev = own_ev or all_ev
    prop = meta.get('property', '?')
    own_det = re.findall(r'(C\d\d):DETECTED', own_ev)
    all_det = re.findall(r'(C\d\d):DETECTED', all_ev)
    suite = re.search(r'suite\[(.*?)\]', ev)
    dw = re.search(r'demo_with_patch_exit=(\d+)', ev)
    dwo = re.search(r'demo_without_patch_exit=(\d+)', ev)
    own = 'yes' if prop in own_det else ('yes (earlier run)' if not own_ev and prop in all_det else 'NO')
    others = sorted(set(all_det + own_det) - {prop})
    rows.append((d, prop, meta.get('summary', '')[:160].replace('|', '/').replace('\n', ' '), suite.group(1) if suite else '?', dw.group(1) if dw else '?', dwo.group(1) if dwo else '?', own, ' '.join(others) if others else '-'))
    meta['verif'] = {'confirmed_in_scratch_worktree': ev, 'own_property_check_detects': own, 'also_detected_by': others}
    json.dump(meta, open(os.path.join(p, 'meta.json'), 'w'), indent=1)
with open(os.path.join(root, 'RESULTS.md'), 'w') as f:
    f.write('# Seeded property-breaking changes: confirmation and detection\n\n')
    f.write('Each change was confirmed in an isolated scratch worktree of /repo (`tools/eval_seed.sh`): the repository suite passes with it; the demo fails with it (exit 101) and passes without it (exit 0). "own check" = the quick check of the property the change was written against, run against the change with the current engine (`tools/eval_own.sh`). "other checks" = further quick checks that reported a VIOLATION in an earlier run of all twenty checks (`tools/eval_all_seeds.sh`; rounds 1-4 only, engine of that time).\n\n')
    f.write('| seed | breaks | change | suite with change | demo with | demo without | own check detects | other checks that alarmed |\n|---|---|---|---|---|---|---|---|\n')
    for r in rows:
        f.write('| ' + ' | '.join(r) + ' |\n')
    n_own = sum(1 for r in rows if r[6].startswith('yes'))
    f.write(f'\n{len(rows)} seeds; {n_own} detected by the check of the property they were written against.\n')
    missed = [r[0] for r in rows if not r[6].startswith('yes')]
    if missed:
        f.write('Not detected by their own check: ' + ', '.join(missed) + ' (see DESIGN.md section 6.1).\n')
print(len(rows), 'seeds')
