#!/usr/bin/env python3
"""Builds /verif/seeded/RESULTS.md from seeded/*/meta.json and seeded/*/eval.txt."""
import json, os, re
root = '/verif/seeded'
rows = []
for d in sorted(os.listdir(root)):
    p = os.path.join(root, d)
    if not os.path.isdir(p):
        continue
    meta = json.load(open(os.path.join(p, 'meta.json')))
    ev = open(os.path.join(p, 'eval.txt')).read().strip() if os.path.exists(os.path.join(p, 'eval.txt')) else ''
    det = re.findall(r'(C\d\d):DETECTED', ev)
    suite = re.search(r'suite\[(.*?)\]', ev)
    dw = re.search(r'demo_with_patch_exit=(\d+)', ev)
    dwo = re.search(r'demo_without_patch_exit=(\d+)', ev)
    rows.append((d, meta.get('property', '?'), meta.get('summary', '')[:160].replace('|', '/'), suite.group(1) if suite else '?', dw.group(1) if dw else '?', dwo.group(1) if dwo else '?', ' '.join(det) if det else '(none)'))
    meta['verif'] = {'confirmed_in_scratch_worktree': ev, 'detected_by': det}
    json.dump(meta, open(os.path.join(p, 'meta.json'), 'w'), indent=1)
with open(os.path.join(root, 'RESULTS.md'), 'w') as f:
    f.write('# Seeded property-breaking changes: confirmation and detection\n\n')
    f.write('Each change was confirmed with `tools/eval_seed.sh` in a scratch worktree of /repo (repository suite passes with it; demo exit code with / without the change) and every quick check was run against it.\n\n')
    f.write('| seed | breaks | change | suite with change | demo with | demo without | quick checks that report a VIOLATION |\n|---|---|---|---|---|---|---|\n')
    for r in rows:
        f.write('| ' + ' | '.join(r) + ' |\n')
    own = sum(1 for r in rows if r[1] in r[6].split())
    f.write(f'\n{len(rows)} seeds; {own} detected by the check of the property they were written against; {sum(1 for r in rows if r[6] != "(none)")} detected by at least one check.\n')
print(len(rows), 'seeds')
