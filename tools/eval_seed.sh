#!/bin/bash
# tools/eval_seed.sh <dir with patch.diff demo.rs meta.json> <check ids...>
# Confirms a seeded change in an isolated scratch worktree of /repo (suite passes with it, demo
# fails with it and passes without it) and runs the given checks against it with an isolated copy
# of the engine, so nothing in /repo or /verif is touched. Prints one summary line.
SEED="$(cd "$1" && pwd)"; shift
W=$(mktemp -d /tmp/seedeval.XXXXXX)
trap 'git -C /repo worktree remove --force "$W/repo" >/dev/null 2>&1; rm -rf "$W"' EXIT
git -C /repo worktree add --detach "$W/repo" HEAD -q || exit 2
cd "$W/repo" || exit 2
git apply "$SEED/patch.diff" || { echo "RESULT $(basename $SEED): patch does not apply"; exit 2; }
export CARGO_NET_OFFLINE=true
SUITE=$(/verif/tools/repo_tests.sh "$W/repo" | tail -1)
if [ -f "$SEED/demo.rs" ]; then
  cp "$SEED/demo.rs" tests/seed_demo.rs
  cargo test --offline --test seed_demo >"$W/demo_with.log" 2>&1; DW=$?
  git apply -R "$SEED/patch.diff"
  cargo test --offline --test seed_demo >"$W/demo_without.log" 2>&1; DWO=$?
  rm -f tests/seed_demo.rs
  git apply "$SEED/patch.diff"
else
  DW=none; DWO=none   # behaviour-preserving change: no demonstration, every check must stay quiet
fi
mkdir -p "$W/mcx" "$W/out"
cp -r /verif/mcx/src /verif/mcx/Cargo.toml /verif/mcx/Cargo.lock "$W/mcx/"
sed -i "s#path = \"/repo\"#path = \"$W/repo\"#" "$W/mcx/Cargo.toml"
cp /verif/known_findings.json "$W/out/"
( cd "$W/mcx" && CARGO_TARGET_DIR="$W/mcx/target" cargo build --release --offline -q 2>"$W/build.log" ) || { echo "RESULT $(basename $SEED): suite[$SUITE] demo_with=$DW demo_without=$DWO engine build failed"; tail -5 "$W/build.log"; exit 2; }
R=""
for c in "$@"; do
  out=$(VERIF_ROOT="$W/out" "$W/mcx/target/release/mcx" check $c --tier ${TIER:-quick} 2>&1); rc=$?
  n=$(printf '%s\n' "$out" | grep -c '^VIOLATION')
  if [ $rc -eq 1 ] && [ "$n" -gt 0 ]; then R="$R $c:DETECTED($n)"; [ -n "${VERBOSE:-}" ] && printf '%s\n' "$out" | grep -A1 '^VIOLATION' | cut -c1-300 | head -${VERBOSE}
  elif [ $rc -ge 2 ]; then R="$R $c:MACHINERY($rc)"; printf '%s\n' "$out" | tail -3
  else R="$R $c:missed"; fi
done
echo "RESULT $(basename $SEED): suite[$SUITE] demo_with_patch_exit=$DW demo_without_patch_exit=$DWO checks:$R"
