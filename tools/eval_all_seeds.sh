#!/bin/bash
# tools/eval_all_seeds.sh [seed dirs...] : evaluates seeds (default: all under /verif/seeded) with every check,
# in isolated scratch worktrees; writes <seed>/eval.txt (the RESULT line). Runs up to $JOBS seeds in parallel.
cd /verif
ALL="C01 C02 C03 C04 C05 C06 C07 C08 C09 C10 C11 C12 C13 C14 C15 C16 C17 C18 C19 C20"
SEEDS="$@"; [ -z "$SEEDS" ] && SEEDS=$(ls -d /verif/seeded/*/ | sed 's#/$##')
JOBS=${JOBS:-3}
for d in $SEEDS; do
  ( /verif/tools/eval_seed.sh $d $ALL > $d/eval.log 2>&1; grep '^RESULT' $d/eval.log > $d/eval.txt; rm -f $d/eval.log; cat $d/eval.txt ) &
  while [ $(jobs -r | wc -l) -ge $JOBS ]; do sleep 2; done
done
wait
