#!/bin/sh
# Runs the repository's own suite (features off) and prints pass/fail totals; exit 0 iff no failures and >=132 passed.
cd "${1:-/repo}" || exit 2
out=$(CARGO_NET_OFFLINE=true cargo test --workspace --no-fail-fast --offline 2>&1)
echo "$out" | grep -E "^test result|FAILED|panicked|^error" | head -20
p=$(echo "$out" | grep -E "^test result" | sed 's/.*ok\. \([0-9]*\) passed.*/\1/;s/.*FAILED\. \([0-9]*\) passed.*/\1/' | awk '{s+=$1} END {print s}')
f=$(echo "$out" | grep -E "^test result" | sed 's/.*; \([0-9]*\) failed.*/\1/' | awk '{s+=$1} END {print s}')
echo "passed=$p failed=$f"
[ "$f" = "0" ] && [ "$p" -ge 132 ]
