#!/bin/sh
# tools/run_mutant.sh <patch> <check ids...>: apply the patch to /repo, run the quick checks, undo.
# Prints, per check, DETECTED (a VIOLATION line that is new) or missed. Replays of mutants are discarded.
P="$1"; shift
cd /repo || exit 2
git diff --quiet || { echo "/repo has uncommitted changes"; exit 2; }
git apply "$P" || { echo "patch does not apply: $P"; exit 2; }
trap 'cd /repo && git checkout -- . ' EXIT INT TERM
R=""
for c in "$@"; do
  out=$(VERIF_ROOT=/tmp/mutant_out_$$ sh -c "mkdir -p /tmp/mutant_out_$$ && cp /verif/known_findings.json /tmp/mutant_out_$$/ && cd /verif && CARGO_TARGET_DIR=/verif/mcx/target-mut ./check_mut $c --tier ${TIER:-quick}" 2>&1)
  rc=$?
  n=$(printf '%s\n' "$out" | grep -c '^VIOLATION')
  if [ $rc -eq 1 ] && [ "$n" -gt 0 ]; then
     R="$R $c:DETECTED($n)"
     [ -n "${VERBOSE:-}" ] && printf '%s\n' "$out" | grep -A1 '^VIOLATION' | cut -c1-260
  elif [ $rc -ge 2 ]; then R="$R $c:MACHINERY($rc)"; printf '%s\n' "$out" | tail -5
  else R="$R $c:missed"; fi
done
rm -rf /tmp/mutant_out_$$
echo "$(basename "$P"):$R"
